//go:build verif

package zzverifrt

// Native implementation used for replay: nondet values come from the solver's
// assignment, Assert/Assume stop the run with an outcome.

import (
	"encoding/json"
	"fmt"
	"math"
	"os"
	"runtime"
	"sort"
	"strings"
	"sync"
	"time"
)

type Case struct {
	ID      string            `json:"id"`
	Harness string            `json:"harness"`
	Params  map[string]int64  `json:"params"`
	Model   map[string]uint64 `json:"model"`
	Expect  string            `json:"expect,omitempty"`
}

type Outcome struct {
	ID       string   `json:"id"`
	Status   string   `json:"status"` // ok | violated | assume-failed | cut | panic | timeout | error
	Label    string   `json:"label,omitempty"`
	Detail   string   `json:"detail,omitempty"`
	Observed []string `json:"observed,omitempty"`
	Reached  []string `json:"reached,omitempty"`
}

type stop struct {
	status, label, detail string
}

var cur struct {
	c        *Case
	observed []string
	reached  []string
	alloc    struct {
		active bool
		begin  uint64
		bound  uint64
		label  string
	}
}

func get(name string) uint64 {
	if cur.c == nil {
		return 0
	}
	return cur.c.Model[name]
}

func Byte(name string) byte       { return byte(get(name)) }
func Uint8(name string) uint8     { return uint8(get(name)) }
func Uint16(name string) uint16   { return uint16(get(name)) }
func Uint32(name string) uint32   { return uint32(get(name)) }
func Uint64(name string) uint64   { return get(name) }
func Uint(name string) uint       { return uint(get(name)) }
func Int8(name string) int8       { return int8(get(name)) }
func Int16(name string) int16     { return int16(get(name)) }
func Int32(name string) int32     { return int32(get(name)) }
func Int64(name string) int64     { return int64(get(name)) }
func Int(name string) int         { return int(get(name)) }
func Float32(name string) float32 { return math.Float32frombits(uint32(get(name))) }
func Float64(name string) float64 { return math.Float64frombits(get(name)) }
func Bool(name string) bool       { return get(name)&1 == 1 }

func IntRange(name string, lo, hi int) int {
	v := int(get(name))
	if v < lo || v > hi {
		panic(stop{"assume-failed", "", fmt.Sprintf("IntRange %s=%d not in [%d,%d]", name, v, lo, hi)})
	}
	return v
}

func Choice(name string, n int) int {
	v := get(name)
	if v >= uint64(n) {
		panic(stop{"assume-failed", "", fmt.Sprintf("Choice %s=%d >= %d", name, v, n)})
	}
	return int(v)
}

func Bytes(name string, n int) []byte {
	b := make([]byte, n)
	for i := range b {
		b[i] = byte(get(fmt.Sprintf("%s_%d", name, i)))
	}
	return b
}

func String(name string, n int) string { return string(Bytes(name, n)) }

func Param(name string) int {
	v, ok := cur.c.Params[name]
	if !ok {
		panic(stop{"error", "", "missing parameter " + name})
	}
	return int(v)
}

// ParamOr is Param with a default for jobs that do not set the parameter.
func ParamOr(name string, def int) int {
	if v, ok := cur.c.Params[name]; ok {
		return int(v)
	}
	return def
}

func Assume(cond bool) {
	if !cond {
		panic(stop{"assume-failed", "", ""})
	}
}

func Assert(cond bool, label string) {
	if !cond {
		panic(stop{"violated", label, ""})
	}
}

func Reach(label string) { cur.reached = append(cur.reached, label) }
func Cut(label string)   { panic(stop{"cut", label, ""}) }

func Observe(label string, v interface{}) {
	if len(cur.observed) < 32 {
		cur.observed = append(cur.observed, label+"="+render(v))
	}
}

func render(v interface{}) string {
	switch v := v.(type) {
	case string:
		return fmt.Sprintf("%q", v)
	case []byte:
		return fmt.Sprintf("%x", v)
	case []string:
		return fmt.Sprintf("%q", v)
	case bool:
		return fmt.Sprintf("%v", v)
	case nil:
		return "<nil>"
	}
	return fmt.Sprintf("%d", v)
}

func Concretize(x int) int { return x }
func IsSymbolic() bool     { return false }

func AllocBegin(engineThreshold int, nativeBound int, label string) {
	runtime.GC()
	var ms runtime.MemStats
	runtime.ReadMemStats(&ms)
	cur.alloc.active = true
	cur.alloc.begin = ms.TotalAlloc
	cur.alloc.bound = uint64(nativeBound)
	cur.alloc.label = label
}

func AllocEnd() {
	if !cur.alloc.active {
		return
	}
	cur.alloc.active = false
	var ms runtime.MemStats
	runtime.ReadMemStats(&ms)
	d := ms.TotalAlloc - cur.alloc.begin
	cur.observed = append(cur.observed, fmt.Sprintf("total-alloc=%d bound=%d", d, cur.alloc.bound))
	if d > cur.alloc.bound {
		panic(stop{"violated", cur.alloc.label, fmt.Sprintf("TotalAlloc %d > bound %d", d, cur.alloc.bound)})
	}
}

func Epoch(roots ...interface{}) {}
func EpochEnd() int              { return 0 }
func MapOrder(k int)             {}

func StrEq(a, b string) bool { return a == b }
func BytesEq(a, b []byte) bool {
	return string(a) == string(b)
}
func StrsEq(a, b []string) bool {
	if len(a) != len(b) {
		return false
	}
	for i := range a {
		if a[i] != b[i] {
			return false
		}
	}
	return true
}
func And(a, b bool) bool     { return a && b }
func Or(a, b bool) bool      { return a || b }
func Implies(a, b bool) bool { return !a || b }
func Ite(c bool, a, b int) int {
	if c {
		return a
	}
	return b
}
func HasPrefixC(s, prefix string) bool { return strings.HasPrefix(s, prefix) }

// RunReplay executes the cases of $VERIF_REPLAY against the registered harnesses and
// prints one "REPLAY-OUTCOME <json>" line per case.
func RunReplay(harnesses map[string]func()) bool {
	path := os.Getenv("VERIF_REPLAY")
	if path == "" {
		fmt.Println("REPLAY-SKIP no VERIF_REPLAY")
		return true
	}
	data, err := os.ReadFile(path)
	if err != nil {
		fmt.Println("REPLAY-ERROR", err)
		return false
	}
	var cases []Case
	if err := json.Unmarshal(data, &cases); err != nil {
		fmt.Println("REPLAY-ERROR", err)
		return false
	}
	perCase := 300 * time.Second
	if s := os.Getenv("VERIF_REPLAY_TIMEOUT"); s != "" {
		if d, err := time.ParseDuration(s); err == nil {
			perCase = d
		}
	}
	for i := range cases {
		c := &cases[i]
		f, ok := harnesses[c.Harness]
		if !ok {
			emit(Outcome{ID: c.ID, Status: "error", Detail: "unknown harness " + c.Harness})
			continue
		}
		done := make(chan Outcome, 1)
		go func() { done <- runCase(c, f) }()
		select {
		case o := <-done:
			emit(o)
		case <-time.After(perCase):
			emit(Outcome{ID: c.ID, Status: "timeout", Label: "harness:terminates", Detail: "native run exceeded " + perCase.String()})
			os.Stdout.Sync()
			os.Exit(0) // the stuck goroutine cannot be stopped
		}
	}
	return true
}

func emit(o Outcome) {
	b, _ := json.Marshal(o)
	fmt.Println("REPLAY-OUTCOME " + string(b))
}

func runCase(c *Case, f func()) (o Outcome) {
	cur.c = c
	cur.observed, cur.reached = nil, nil
	cur.alloc.active = false
	o.ID = c.ID
	defer func() {
		o.Observed, o.Reached = cur.observed, cur.reached
		sort.Strings(o.Reached)
		if r := recover(); r != nil {
			if s, ok := r.(stop); ok {
				o.Status, o.Label, o.Detail = s.status, s.label, s.detail
				return
			}
			o.Status, o.Label, o.Detail = "violated", "harness:no-escaping-panic", fmt.Sprint(r)
		}
	}()
	f()
	o.Status = "ok"
	return
}

// ParseLnCol parses the "Ln x, Col y: " prefix of a diagnostic.
func ParseLnCol(s string) (line, col int, ok bool) {
	var rest string
	n, err := fmt.Sscanf(s, "Ln %d, Col %d:%s", &line, &col, &rest)
	if n >= 2 && strings.HasPrefix(s, fmt.Sprintf("Ln %d, Col %d: ", line, col)) {
		return line, col, true
	}
	_ = err
	return 0, 0, false
}

// DiagText returns the text behind the "Ln x, Col y: " prefix.
func DiagText(s string) string {
	line, col, ok := ParseLnCol(s)
	if !ok {
		return ""
	}
	return s[len(fmt.Sprintf("Ln %d, Col %d: ", line, col)):]
}

// AllocTotal natively reports the bytes allocated since AllocBegin.
func AllocTotal() int {
	var ms runtime.MemStats
	runtime.ReadMemStats(&ms)
	return int(ms.TotalAlloc - cur.alloc.begin)
}

// Concurrently runs f in n goroutines and re-raises the first assertion failure.
func Concurrently(n int, f func()) {
	var wg sync.WaitGroup
	fails := make(chan interface{}, n)
	for i := 0; i < n; i++ {
		wg.Add(1)
		go func() {
			defer wg.Done()
			defer func() {
				if r := recover(); r != nil {
					fails <- r
				}
			}()
			f()
		}()
	}
	wg.Wait()
	select {
	case r := <-fails:
		panic(r)
	default:
	}
}

// Iterations is 1 under the engine and n natively.
func Iterations(n int) int { return n }
