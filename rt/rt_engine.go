//go:build verif

package zzverifrt

// Engine stubs: every function below is intercepted by the symbolic engine by name;
// the bodies only make the package type-check.

func Byte(name string) byte       { return 0 }
func Uint8(name string) uint8     { return 0 }
func Uint16(name string) uint16   { return 0 }
func Uint32(name string) uint32   { return 0 }
func Uint64(name string) uint64   { return 0 }
func Uint(name string) uint       { return 0 }
func Int8(name string) int8       { return 0 }
func Int16(name string) int16     { return 0 }
func Int32(name string) int32     { return 0 }
func Int64(name string) int64     { return 0 }
func Int(name string) int         { return 0 }
func Float32(name string) float32 { return 0 }
func Float64(name string) float64 { return 0 }
func Bool(name string) bool       { return false }

func IntRange(name string, lo, hi int) int { return lo }
func Choice(name string, n int) int        { return 0 }
func Bytes(name string, n int) []byte      { return make([]byte, n) }
func String(name string, n int) string     { return "" }
func Param(name string) int                { return 0 }
func ParamOr(name string, def int) int     { return def }

func Assume(cond bool)                    {}
func Assert(cond bool, label string)      {}
func Reach(label string)                  {}
func Cut(label string)                    {}
func Observe(label string, v interface{}) {}
func Concretize(x int) int                { return x }
func IsSymbolic() bool                    { return true }

func AllocBegin(engineThreshold int, nativeBound int, label string) {}
func AllocEnd()                                                     {}
func Epoch(roots ...interface{})                                    {}
func EpochEnd() int                                                 { return 0 }
func MapOrder(k int)                                                {}

func StrEq(a, b string) bool           { return a == b }
func BytesEq(a, b []byte) bool         { return false }
func StrsEq(a, b []string) bool        { return false }
func And(a, b bool) bool               { return a && b }
func Or(a, b bool) bool                { return a || b }
func Implies(a, b bool) bool           { return !a || b }
func Ite(c bool, a, b int) int         { return a }
func HasPrefixC(s, prefix string) bool { return false }

func ParseLnCol(s string) (line, col int, ok bool) { return 0, 0, false }

func DiagText(s string) string { return "" }

func AllocTotal() int { return 0 }

// Concurrently runs f in n goroutines natively; the single-threaded engine runs it once.
func Concurrently(n int, f func()) { f() }

// Iterations is 1 under the engine and n natively.
func Iterations(n int) int { return 1 }
