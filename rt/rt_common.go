//go:build verif

// Package zzverifrt is the harness runtime of /verif: nondeterministic inputs,
// assumptions and assertions.  Under the symbolic engine the primitives are
// intercepted by name; natively (replay) they read the solver's assignment.
package zzverifrt

// Try runs f and reports whether a panic escaped it.
func Try(f func()) (panicked bool) {
	defer func() {
		if r := recover(); r != nil {
			panicked = true
		}
	}()
	f()
	return false
}

// TryVal runs f and returns the recovered panic value (nil if none).
func TryVal(f func()) (val interface{}) {
	defer func() {
		val = recover()
	}()
	f()
	return nil
}
