//go:build verif

// Package zzverifrt is the harness runtime of /verif: nondeterministic inputs,
// assumptions and assertions.  Under the symbolic engine the primitives are
// intercepted by name; natively (replay) they read the solver's assignment.
package zzverifrt

// Try runs f and reports whether a panic escaped it.
func Try(f func()) (panicked bool) {
	defer func() {
		if r := recover(); r != nil {
			panicked = true
		}
	}()
	f()
	return false
}

// TryVal runs f and returns the recovered panic value (nil if none).
func TryVal(f func()) (val interface{}) {
	defer func() {
		val = recover()
	}()
	f()
	return nil
}

// N builds a variable name from a base and indices.
func N(base string, idx ...int) string {
	for _, i := range idx {
		base += "_" + itoa(i)
	}
	return base
}

func itoa(i int) string {
	if i == 0 {
		return "0"
	}
	neg := i < 0
	if neg {
		i = -i
	}
	var b [24]byte
	p := len(b)
	for i > 0 {
		p--
		b[p] = byte('0' + i%10)
		i /= 10
	}
	if neg {
		p--
		b[p] = '-'
	}
	return string(b[p:])
}
