#!/usr/bin/env python3
"""Development aid: run quick checks against every kept seeded change on a private copy of
/repo (so /repo stays untouched) and refresh seeded/*/meta.json + seeded/README.md.

  seed_matrix.py [--all-checks] [seed-dir-name ...]
"""
import sys, os, json, subprocess, shutil, glob, time, re
BASE = os.path.dirname(os.path.abspath(__file__))
REPO = os.environ.get("SEED_REPO", "/repo")
from concurrent.futures import ThreadPoolExecutor
ALL = "--all-checks" in sys.argv
names = [a for a in sys.argv[1:] if not a.startswith("--")] or sorted(os.path.basename(d) for d in glob.glob(BASE + "/seeded/C*"))
IDS = ["C%02d" % i for i in range(1, 20)]
def sh(cmd, env=None, cwd=None):
    return subprocess.run(cmd, shell=True, cwd=cwd, env=env, stdout=subprocess.PIPE, stderr=subprocess.STDOUT, text=True)
def one(name):
    d = BASE + "/seeded/" + name
    meta = json.load(open(d + "/meta.json"))
    pid = meta["property"]
    work = "/var/tmp/seedrun-%s" % name
    shutil.rmtree(work, ignore_errors=True)
    os.makedirs(work)
    sh("git -C %s archive HEAD | tar -x -C %s" % (REPO, work))
    sh("cp %s/go.sum %s/ 2>/dev/null" % (REPO, work))
    r = sh("git init -q . && git apply %s/patch.diff" % d, cwd=work)
    if r.returncode != 0:
        r = sh("patch -p1 < %s/patch.diff" % d, cwd=work)
    res = {}
    env = dict(os.environ, VERIF_REPO=work, VERIF_OUT=work + "/out", VERIF_WORKERS="4", VERIF_SCRATCH=work + "/scratch")
    for c in (IDS if ALL else [pid]):
        t0 = time.time()
        x = sh("%s/check %s --tier quick" % (BASE, c), env=env, cwd=BASE)
        lines = [l for l in x.stdout.splitlines() if l.startswith(("VIOLATION", "INCONCLUSIVE"))]
        res[c] = dict(exit=x.returncode, s=round(time.time() - t0, 1), lines=[re.sub(r"replay=\S+/", "replay=", l)[:200] for l in lines[:3]])
    shutil.rmtree(work, ignore_errors=True)
    meta["applies_to_repo_head"] = r.returncode == 0
    meta["matrix" if ALL else "own_check"] = res
    meta["flagged_by"] = sorted(set(meta.get("flagged_by_all", [])) | {c for c, v in res.items() if v["exit"] == 1}) if ALL else [c for c, v in res.items() if v["exit"] == 1]
    if ALL:
        meta["flagged_by_all"] = [c for c, v in res.items() if v["exit"] == 1]
    json.dump(meta, open(d + "/meta.json", "w"), indent=1)
    return name, pid, res
with ThreadPoolExecutor(max_workers=int(os.environ.get("SEED_PAR", "4"))) as ex:
    for name, pid, res in ex.map(one, names):
        print(name, " ".join("%s=%d" % (c, v["exit"]) for c, v in res.items()), flush=True)
