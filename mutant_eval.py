#!/usr/bin/env python3
"""Development aid: apply a patch to /repo, run the quick checks of the given properties
(default: all), report which checks flag it, and restore /repo.

  mutant_eval.py <patch.diff> [ID ...]
"""
import sys, subprocess, os, json, time
patch = os.path.abspath(sys.argv[1])
ids = sys.argv[2:] or ["C%02d" % i for i in range(1, 20)]
def sh(cmd, **kw):
    return subprocess.run(cmd, shell=True, stdout=subprocess.PIPE, stderr=subprocess.STDOUT, text=True, **kw)
st = sh("git -C /repo status --porcelain")
if st.stdout.strip():
    print("refusing: /repo has local changes:\n" + st.stdout); sys.exit(2)
r = sh("git -C /repo apply %s" % patch)
if r.returncode != 0:
    print("patch does not apply:", r.stdout); sys.exit(2)
res = {}
try:
    b = sh("cd /repo && GOFLAGS=-mod=mod GOPROXY=off go build ./... && GOFLAGS=-mod=mod GOPROXY=off go test -vet=off -count=1 ./... 2>&1 | tail -4")
    print("build+tests:", "ok" if b.returncode == 0 and "FAIL" not in b.stdout else "FAIL\n" + b.stdout)
    for pid in ids:
        t0 = time.time()
        c = sh("cd /verif && ./check %s --tier quick" % pid)
        lines = [l for l in c.stdout.splitlines() if l.startswith(("VIOLATION", "INCONCLUSIVE", "KNOWN"))]
        res[pid] = (c.returncode, lines[:3])
        print("%s exit=%d %.0fs %s" % (pid, c.returncode, time.time() - t0, " | ".join(l[:160] for l in lines[:2])), flush=True)
finally:
    sh("git -C /repo checkout -- . && git -C /repo clean -fdq pkg")
flagged = [p for p, (rc, _) in res.items() if rc == 1]
print("FLAGGED-BY:", " ".join(flagged) or "none", " INCONCLUSIVE:", " ".join(p for p, (rc, _) in res.items() if rc == 3) or "none")
