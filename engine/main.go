package main

// gosymex: bounded symbolic execution of Go SSA with an SMT solver.
//
//   gosymex run -repo /repo -overlay overlay.json -jobs jobs.json -out results.json [-workers N]
//
// The SSA is rebuilt from the repository's current working tree on every invocation.

import (
	"encoding/json"
	"flag"
	"fmt"
	"go/types"
	"os"
	"runtime/debug"
	"runtime/pprof"
	"sort"
	"strings"
	"sync"
	"time"

	"golang.org/x/tools/go/packages"
	"golang.org/x/tools/go/ssa"
	"golang.org/x/tools/go/ssa/ssautil"
)

const modPath = "github.com/wolimst/lib-secs2-hsms-go"

type Job struct {
	ID       string              `json:"id"`
	Pkg      string              `json:"pkg"` // import path suffix, e.g. pkg/ast
	Harness  string              `json:"harness"`
	Params   map[string]int64    `json:"params"`
	Fuel     int64               `json:"fuel"`
	Depth    int                 `json:"depth"` // call depth budget (default 400)
	TimeoutS float64             `json:"timeout_s"`
	MaxPaths int                 `json:"max_paths"`
	QueryMs  int                 `json:"query_ms"`
	Solver   string              `json:"solver"`
	Excludes map[string][][]Pred `json:"excludes"` // label -> list of known-finding predicates (conjunctions)
	SMTLog   string              `json:"smt_log"`
	Seed     uint64              `json:"seed"`
	Cross    string              `json:"cross"` // second solver for re-deciding discharged assertions (e.g. z3-new)
}

type Pred struct {
	Var   string `json:"var"`
	Op    string `json:"op"` // == != < <= > >= (unsigned)
	Const uint64 `json:"const"`
}

type Loaded struct {
	prog  *ssa.Program
	pkgs  map[string]*ssa.Package
	sizes types.Sizes
}

func load(repo string, overlayFile string) (*Loaded, error) {
	overlay := map[string][]byte{}
	if overlayFile != "" {
		data, err := os.ReadFile(overlayFile)
		if err != nil {
			return nil, err
		}
		var ov struct{ Replace map[string]string }
		if err := json.Unmarshal(data, &ov); err != nil {
			return nil, err
		}
		for virt, real := range ov.Replace {
			b, err := os.ReadFile(real)
			if err != nil {
				return nil, err
			}
			overlay[virt] = b
		}
	}
	cfg := &packages.Config{
		Mode:       packages.LoadAllSyntax,
		Dir:        repo,
		Overlay:    overlay,
		BuildFlags: []string{"-tags=verif"},
		Env:        append(os.Environ(), "GOFLAGS=-mod=mod", "GOPROXY=off", "GOSUMDB=off", "GOTOOLCHAIN=local"),
	}
	initial, err := packages.Load(cfg, "./pkg/ast", "./pkg/parser/hsms", "./pkg/parser/sml", "./pkg/zzverifrt")
	if err != nil {
		return nil, err
	}
	nerr := 0
	packages.Visit(initial, nil, func(p *packages.Package) {
		for _, e := range p.Errors {
			fmt.Fprintf(os.Stderr, "load error: %v\n", e)
			nerr++
		}
	})
	if nerr > 0 {
		return nil, fmt.Errorf("%d package load errors", nerr)
	}
	prog, _ := ssautil.AllPackages(initial, ssa.InstantiateGenerics|ssa.SanityCheckFunctions&0)
	prog.Build()
	l := &Loaded{prog: prog, pkgs: map[string]*ssa.Package{}, sizes: types.SizesFor("gc", "amd64")}
	for _, p := range prog.AllPackages() {
		l.pkgs[p.Pkg.Path()] = p
	}
	if p := l.pkgs["errors"]; p != nil {
		errorStringType = types.NewPointer(p.Type("errorString").Type())
	}
	if p := l.pkgs["strconv"]; p != nil {
		numErrorType = types.NewPointer(p.Type("NumError").Type())
	}
	return l, nil
}

func runJob(l *Loaded, job Job) (res JobResult) {
	t0 := time.Now()
	res.Harness = job.Harness
	res.Params = job.Params
	defer func() {
		if r := recover(); r != nil {
			res.Error = fmt.Sprintf("engine panic: %v\n%s", r, debug.Stack())
		}
		res.WallSec = time.Since(t0).Seconds()
	}()
	pkg := l.pkgs[modPath+"/"+job.Pkg]
	if pkg == nil {
		res.Error = "no such package " + job.Pkg
		return
	}
	fn := pkg.Func(job.Harness)
	if fn == nil {
		res.Error = "no such harness function " + job.Harness
		return
	}
	ts := NewTermStore()
	solverKind := job.Solver
	if solverKind == "" {
		solverKind = "z3"
	}
	qms := job.QueryMs
	if qms == 0 {
		qms = 10000
	}
	solver, err := NewSolver(solverKind, ts, qms)
	if err != nil {
		res.Error = err.Error()
		return
	}
	defer solver.Close()
	if job.SMTLog != "" {
		f, _ := os.Create(job.SMTLog)
		defer f.Close()
		solver.log = f
	}
	ex := NewExec(ts, solver, job.Params)
	ex.maxFuel = job.Fuel
	if ex.maxFuel == 0 {
		ex.maxFuel = 5_000_000
	}
	if job.TimeoutS > 0 {
		ex.deadline = t0.Add(time.Duration(job.TimeoutS * float64(time.Second)))
	}
	if !runDeadline.IsZero() && (ex.deadline.IsZero() || runDeadline.Before(ex.deadline)) {
		ex.deadline = runDeadline // budget of the whole run: what is left is reported as truncated
	}
	ex.maxPaths = job.MaxPaths
	ex.crossSolver = job.Cross
	ex.seed = job.Seed
	ex.exclPreds = job.Excludes
	fnCount := map[*ssa.Function]int64{}
	run := func() {
		ip := &Interp{prog: l.prog, ts: ts, ex: ex, globals: map[*ssa.Global]*Value{}, sizes: l.sizes,
			repoPrefix: modPath, fnCount: fnCount, seeded: map[string]Value{}}
		ip.errRange = ip.newError("value out of range")
		ip.errSyntax = ip.newError("invalid syntax")
		ip.seeded["strconv.ErrRange"] = ip.errRange
		ip.seeded["strconv.ErrSyntax"] = ip.errSyntax
		ip.alloc.total = Const(64, 0)
		ip.maxDepth = 400
		if job.Depth > 0 {
			ip.maxDepth = job.Depth
		}
		ex.render = ip.renderObs
		// package initialisers of the repository packages (and the harness runtime)
		for path, p := range l.pkgs {
			if strings.HasPrefix(path, modPath) {
				if init := p.Func("init"); init != nil {
					ip.runInit(init)
				}
			}
		}
		defer func() {
			if r := recover(); r != nil {
				if tp, ok := r.(targetPanic); ok {
					// a target panic that reaches the harness frame un-recovered
					ex.observed = append(ex.observed, "escaping panic: "+ip.show(tp.v))
					ex.Assert(tFalse, "harness:no-escaping-panic")
					panic(pathEnd{"panic-escaped", ip.show(tp.v)})
				}
				panic(r)
			}
		}()
		ip.callSSA(nil, 0, fn, nil, nil)
	}
	ex.Explore(run)
	res.Stats = ex.stats
	res.Violations = ex.violations
	res.Samples = ex.samples
	res.Notes = ex.notes
	res.Truncated = ex.truncated
	res.SolverSec = solver.SolverSec
	res.Queries = solver.Queries
	res.OneShot = solver.OneShot
	if solver.Errors > 0 {
		if res.Notes == nil {
			res.Notes = map[string]int{}
		}
		res.Notes["solver-errors"] = solver.Errors
	}
	res.Functions = map[string]int64{}
	for f, n := range fnCount {
		if f.Pkg != nil && strings.HasPrefix(f.Pkg.Pkg.Path(), modPath) && !strings.Contains(f.Pkg.Pkg.Path(), "zzverifrt") && !strings.HasPrefix(f.Name(), "ZZ") && !strings.HasPrefix(f.Name(), "zz") {
			res.Functions[f.String()] = n
		}
	}
	for _, v := range ts.varSeq {
		res.Vars = append(res.Vars, fmt.Sprintf("%s:%d", v.name, v.w))
	}
	return
}

func predTerm(ts *TermStore, v *Term, p Pred) *Term {
	c := Const(int(v.w), p.Const)
	switch p.Op {
	case "==":
		return ts.Eq(v, c)
	case "!=":
		return ts.BNot(ts.Eq(v, c))
	case "<":
		return ts.Cmp(OpUlt, v, c)
	case "<=":
		return ts.Cmp(OpUle, v, c)
	case ">":
		return ts.Cmp(OpUlt, c, v)
	case ">=":
		return ts.Cmp(OpUle, c, v)
	}
	panic("bad predicate op " + p.Op)
}

// runInit interprets a package initialiser; calls to the initialisers of other packages are skipped.
func (ip *Interp) runInit(init *ssa.Function) {
	ip.callSSA(nil, 0, init, nil, nil)
}

func main() {
	if len(os.Args) < 2 {
		fmt.Fprintln(os.Stderr, "usage: gosymex run|selftest ...")
		os.Exit(2)
	}
	switch os.Args[1] {
	case "run":
		cmdRun(os.Args[2:])
	case "selftest":
		cmdSelftest()
	default:
		fmt.Fprintln(os.Stderr, "unknown command", os.Args[1])
		os.Exit(2)
	}
}

var runDeadline time.Time

func cmdRun(args []string) {
	fs := flag.NewFlagSet("run", flag.ExitOnError)
	budget := fs.Float64("budget", 0, "time budget of the whole run in seconds (0: none); jobs still running or not yet started then end as truncated")
	repo := fs.String("repo", "/repo", "repository root")
	overlay := fs.String("overlay", "", "overlay JSON (go build -overlay format)")
	jobsFile := fs.String("jobs", "", "jobs JSON")
	out := fs.String("out", "", "results JSON")
	workers := fs.Int("workers", 16, "parallel workers")
	cpuprof := fs.String("cpuprofile", "", "write CPU profile")
	gcpct := fs.Int("gcpercent", 600, "GC percent (lower for memory-heavy job groups)")
	fs.Parse(args)
	if *cpuprof != "" {
		f, _ := os.Create(*cpuprof)
		pprof.StartCPUProfile(f)
		defer pprof.StopCPUProfile()
	}
	data, err := os.ReadFile(*jobsFile)
	if err != nil {
		fmt.Fprintln(os.Stderr, err)
		os.Exit(2)
	}
	var jobs []Job
	if err := json.Unmarshal(data, &jobs); err != nil {
		fmt.Fprintln(os.Stderr, err)
		os.Exit(2)
	}
	debug.SetGCPercent(*gcpct)
	t0 := time.Now()
	if *budget > 0 {
		runDeadline = t0.Add(time.Duration(*budget * float64(time.Second)))
	}
	l, err := load(*repo, *overlay)
	if err != nil {
		fmt.Fprintln(os.Stderr, "load failed:", err)
		os.Exit(2)
	}
	loadSec := time.Since(t0).Seconds()
	results := make([]JobResult, len(jobs))
	var wg sync.WaitGroup
	ch := make(chan int)
	for w := 0; w < *workers; w++ {
		wg.Add(1)
		go func() {
			defer wg.Done()
			for i := range ch {
				results[i] = runJob(l, jobs[i])
				r := &results[i]
				fmt.Fprintf(os.Stderr, "job %s %v: paths=%d viol=%d ends=%v %.1fs %s\n", jobs[i].Harness, jobs[i].Params, r.Stats.Paths, len(r.Violations), r.Stats.Ends, r.WallSec, firstLine(r.Error))
			}
		}()
	}
	// longest jobs first is unknown; keep order
	for i := range jobs {
		ch <- i
	}
	close(ch)
	wg.Wait()
	outData, _ := json.MarshalIndent(map[string]interface{}{"load_s": loadSec, "results": results}, "", " ")
	if *out == "" {
		os.Stdout.Write(outData)
	} else if err := os.WriteFile(*out, outData, 0o644); err != nil {
		fmt.Fprintln(os.Stderr, err)
		os.Exit(2)
	}
}

func firstLine(s string) string {
	if i := strings.IndexByte(s, '\n'); i >= 0 {
		return s[:i]
	}
	return s
}

func sortedFnNames(m map[string]int64) []string {
	ks := make([]string, 0, len(m))
	for k := range m {
		ks = append(ks, k)
	}
	sort.Strings(ks)
	return ks
}
