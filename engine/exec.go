package main

// Path exploration by decision-prefix re-execution.
//
// A path is identified by its event list.  Every call of Branch on a non-constant
// condition is an event: a "choice" (both sides feasible, or feasibility unknown) or
// "forced" (only one side feasible).  Assume is an event as well.  The solver's
// assertion stack mirrors the choice/assume events of the current path.

import (
	"fmt"
	"os"
	"sort"
	"strings"
	"time"
)

type evKind uint8

const (
	evChoice evKind = iota
	evForced
	evAssume
	evAssert // dir = the assertion was (possibly) violated and cond was assumed afterwards
)

type event struct {
	kind evKind
	dir  bool
	val  uint64 // candidate value for concretisation events
}

type obsRec struct {
	label string
	v     interface{}
}

type pending struct {
	events []event // prefix including the flipped last event
	model  Model   // model satisfying the prefix (nil = unknown feasibility)
}

// control-flow panics of the engine (never seen by target recover)
type pathEnd struct {
	reason string
	detail string
}

type Violation struct {
	Label  string            `json:"label"`
	Model  map[string]uint64 `json:"model"`
	Detail string            `json:"detail,omitempty"`
	PathNo int               `json:"path"`
}

type PathSample struct {
	PathNo   int               `json:"path"`
	End      string            `json:"end"`
	Events   int               `json:"decisions"`
	Model    map[string]uint64 `json:"assignment"` // {} for a path without nondeterministic values: it is replayed natively too
	Observed []string          `json:"observed,omitempty"`
	Trace    []string          `json:"trace,omitempty"` // rt.Observe values rendered under the assignment (compared with the native run)
}

type Stats struct {
	Paths          int            `json:"paths"`
	Decisions      int            `json:"decisions"`
	ForcedBranches int            `json:"forced_branches"`
	FeasSat        int            `json:"feasibility_sat"`
	FeasUnsat      int            `json:"feasibility_unsat"`
	FeasByModel    int            `json:"feasibility_by_model"`
	FiniteDomain   int            `json:"finite_domain_decisions"`
	AssertTrivial  int            `json:"assert_trivially_true"`
	AssertUnsat    int            `json:"assert_unsat"`
	AssertSat      int            `json:"assert_sat"`
	AssertSatModel int            `json:"assert_sat_by_model"`
	Unknown        int            `json:"unknown"`
	CrossAgreed    int            `json:"cross_solver_agreed"`
	CrossUnknown   int            `json:"cross_solver_unknown"`
	Ends           map[string]int `json:"path_ends"`
	Reached        map[string]int `json:"reached"`
	AssertLabels   map[string]int `json:"assert_labels"`
	Instrs         int64          `json:"instructions"`
}

type Exec struct {
	ts     *TermStore
	solver *Solver
	params map[string]int64

	// current path
	events   []event
	evLevel  []int // solver level after event i
	replayN  int   // events[0:replayN] are prescribed
	pos      int   // index of next event
	model    Model
	pathNo   int
	observed []string
	obsVals  []obsRec
	render   func(v interface{}, m Model) string
	fuel     int64
	maxFuel  int64
	depth    int

	baseLevel int
	stack     []pending
	facts     map[int32]bool    // conditions already decided on this path (by term id)
	known     map[int32]uint64  // terms concretised on this path
	doms      map[int32]*domain // finite-domain filter: feasible values of small single variables
	multi     map[int32]bool    // variables that occur in a multi-variable constraint of this path
	sizes     map[int32]int
	pc        []*Term // asserted conditions of the current path

	stats           Stats
	violations      []Violation
	perLabel        map[string]int
	samples         []PathSample
	notes           map[string]int
	exclPreds       map[string][][]Pred // label -> known-finding predicates (conjunctions), negated in violation queries
	maxViolPerLabel int
	deadline        time.Time
	maxPaths        int
	truncated       bool
	seed            uint64
	crossSolver     string
}

func NewExec(ts *TermStore, solver *Solver, params map[string]int64) *Exec {
	ex := &Exec{ts: ts, solver: solver, params: params, perLabel: map[string]int{}, notes: map[string]int{},
		maxViolPerLabel: 3}
	ex.stats.Ends = map[string]int{}
	ex.stats.Reached = map[string]int{}
	ex.stats.AssertLabels = map[string]int{}
	return ex
}

func (ex *Exec) endPath(reason, detail string) {
	panic(pathEnd{reason, detail})
}

func (ex *Exec) note(s string) { ex.notes[s]++ }

func (ex *Exec) modelNamed(m Model) map[string]uint64 {
	out := map[string]uint64{}
	for _, v := range ex.ts.varSeq {
		if x, ok := m[v.id]; ok {
			out[v.name] = x
		} else {
			out[v.name] = 0
		}
	}
	return out
}

func (ex *Exec) evalBool(t *Term) bool {
	if ex.model == nil {
		return false
	}
	return Eval(t, ex.model) != 0
}

// ensureModel makes sure ex.model satisfies the current path condition.
func (ex *Exec) ensureModel() {
	if ex.model != nil {
		return
	}
	r, m := ex.solver.Check()
	ex.count(r)
	switch r {
	case Sat:
		ex.model = m
	case Unsat:
		ex.endPath("infeasible", "")
	default:
		ex.endPath("unknown", "solver could not decide feasibility of the path prefix")
	}
}

// Branch decides a symbolic condition on the current path.
func (ex *Exec) Branch(cond *Term) bool { return ex.branchV(cond, 0) }

func (ex *Exec) branchV(cond *Term, val uint64) bool {
	if cond.w != 0 {
		panic("Branch on non-bool")
	}
	if cond.IsConst() {
		return cond.k != 0
	}
	if d, ok := ex.facts[cond.id]; ok {
		return d
	}
	if cond.op == OpBNot {
		if d, ok := ex.facts[cond.a.id]; ok {
			return !d
		}
	}
	if ex.pos < ex.replayN {
		ev := ex.events[ex.pos]
		ex.pos++
		if ev.kind == evAssume {
			panic(fmt.Sprintf("replay divergence: expected assume event at %d, got branch", ex.pos-1))
		}
		ex.facts[cond.id] = ev.dir
		if ev.kind == evChoice {
			ex.pc = append(ex.pc, ex.dirTerm(cond, ev.dir))
			ex.noteConstraint(cond, ev.dir)
		}
		if ex.pos == ex.replayN && ev.kind == evChoice {
			// this is the flipped decision: assert it now
			ex.solver.Push()
			ex.assertDir(cond, ev.dir)
			ex.evLevel[ex.pos-1] = ex.solver.level
		}
		return ev.dir
	}
	ex.ensureModel()
	ex.stats.Decisions++
	dir := Eval(cond, ex.model) != 0
	ex.stats.FeasByModel++
	other := cond
	if dir {
		other = ex.ts.BNot(cond)
	}
	var r SatResult
	var m Model
	if ok, canT, canF, v, wT, wF := ex.domainDecide(cond); ok && (canT || canF) && (dir && canT || !dir && canF) {
		ex.stats.FiniteDomain++
		otherOK, w := canF, wF
		if !dir {
			otherOK, w = canT, wT
		}
		if otherOK {
			r = Sat
			m = Model{}
			for k, x := range ex.model {
				m[k] = x
			}
			m[v.id] = w
		} else {
			r = Unsat
		}
	} else {
		r, m = ex.solver.CheckWith(other)
		ex.count(r)
	}
	if r == Unsat {
		ex.stats.ForcedBranches++
		ex.facts[cond.id] = dir
		ex.push(event{evForced, dir, val}, false, nil)
		return dir
	}
	// both sides (possibly) feasible: queue the alternative
	alt := make([]event, len(ex.events)+1)
	copy(alt, ex.events)
	alt[len(ex.events)] = event{evChoice, !dir, val}
	if r == Unknown {
		m = nil
	}
	ex.stack = append(ex.stack, pending{alt, m})
	ex.facts[cond.id] = dir
	ex.pc = append(ex.pc, ex.dirTerm(cond, dir))
	ex.noteConstraint(cond, dir)
	ex.push(event{evChoice, dir, val}, true, cond)
	return dir
}

func (ex *Exec) count(r SatResult) {
	switch r {
	case Sat:
		ex.stats.FeasSat++
	case Unsat:
		ex.stats.FeasUnsat++
	default:
		ex.stats.Unknown++
	}
}

func (ex *Exec) dirTerm(cond *Term, dir bool) *Term {
	if dir {
		return cond
	}
	return ex.ts.BNot(cond)
}

func (ex *Exec) assertDir(cond *Term, dir bool) {
	if dir {
		ex.solver.Assert(cond)
	} else {
		ex.solver.Assert(ex.ts.BNot(cond))
	}
}

func (ex *Exec) push(ev event, doAssert bool, cond *Term) {
	if doAssert {
		ex.solver.Push()
		ex.assertDir(cond, ev.dir)
	}
	ex.events = append(ex.events, ev)
	ex.evLevel = append(ex.evLevel, ex.solver.level)
	ex.pos++
}

// Assume constrains the path; an infeasible assumption ends the path silently.
func (ex *Exec) Assume(cond *Term) {
	if cond.IsConst() {
		if cond.k == 0 {
			ex.endPath("assume-false", "")
		}
		return
	}
	if ex.pos < ex.replayN {
		ev := ex.events[ex.pos]
		ex.pos++
		if ev.kind != evAssume {
			panic(fmt.Sprintf("replay divergence: expected branch event at %d, got assume", ex.pos-1))
		}
		ex.pc = append(ex.pc, cond)
		ex.facts[cond.id] = true
		ex.noteConstraint(cond, true)
		return
	}
	ex.pc = append(ex.pc, cond)
	ex.facts[cond.id] = true
	ex.noteConstraint(cond, true)
	ex.solver.Push()
	ex.solver.Assert(cond)
	ex.events = append(ex.events, event{evAssume, true, 0})
	ex.evLevel = append(ex.evLevel, ex.solver.level)
	ex.pos++
	if ex.model != nil && Eval(cond, ex.model) != 0 {
		return
	}
	r, m := ex.solver.Check()
	ex.count(r)
	switch r {
	case Sat:
		ex.model = m
	case Unsat:
		ex.endPath("assume-infeasible", "")
	default:
		ex.model = nil
	}
}

// Assert checks cond for every value on this path.
func (ex *Exec) Assert(cond *Term, label string) {
	if cond.IsConst() && cond.k != 0 {
		if ex.pos >= ex.replayN {
			ex.stats.AssertLabels[label]++
			ex.stats.AssertTrivial++
		}
		return
	}
	if ex.pos < ex.replayN {
		ev := ex.events[ex.pos]
		ex.pos++
		if ev.kind != evAssert {
			panic(fmt.Sprintf("replay divergence: expected kind %d at %d, got assert %s", ev.kind, ex.pos-1, label))
		}
		if ev.dir {
			if cond.IsConst() {
				ex.endPath("assume-false", "")
			}
			ex.pc = append(ex.pc, cond)
			ex.facts[cond.id] = true
			ex.noteConstraint(cond, true)
		}
		return
	}
	ex.stats.AssertLabels[label]++
	record := func(assumed bool) {
		ex.events = append(ex.events, event{evAssert, assumed, 0})
		ex.evLevel = append(ex.evLevel, ex.solver.level)
		ex.pos++
	}
	assume := func() {
		// continue under the assumption that cond held, so later assertions are still examined
		if cond.IsConst() {
			record(true)
			ex.endPath("assume-false", "")
		}
		ex.pc = append(ex.pc, cond)
		ex.facts[cond.id] = true
		ex.noteConstraint(cond, true)
		ex.solver.Push()
		ex.solver.Assert(cond)
		record(true)
		if ex.model != nil && Eval(cond, ex.model) != 0 {
			return
		}
		r, m := ex.solver.Check()
		ex.count(r)
		switch r {
		case Sat:
			ex.model = m
		case Unsat:
			ex.endPath("assume-infeasible", "")
		default:
			ex.model = nil
		}
	}
	neg := ex.ts.BNot(cond)
	extras := ex.excludeTerms(label)
	var witness Model
	if ex.model != nil && Eval(cond, ex.model) == 0 && ex.allHold(extras, ex.model) {
		witness = ex.model
		ex.stats.AssertSatModel++
	} else {
		q := append([]*Term{neg}, extras...)
		r, m := ex.solver.CheckWith(q...)
		if r == Unsat && ex.crossSolver != "" {
			// thorough tier: the discharged obligation is re-decided by a second solver
			switch ex.solver.CrossCheck(ex.crossSolver, q...) {
			case Unsat:
				ex.stats.CrossAgreed++
			case Sat:
				ex.note("solver-disagreement:" + label)
				r = Unknown
			default:
				ex.stats.CrossUnknown++
			}
		}
		switch r {
		case Unsat:
			ex.stats.AssertUnsat++
			if len(extras) > 0 {
				// the only violations are listed ones: keep going under the assumption
				assume()
			} else {
				record(false)
			}
			return
		case Sat:
			witness = m
			ex.stats.AssertSat++
		default:
			ex.stats.Unknown++
			ex.note("assert-unknown:" + label)
			assume()
			return
		}
	}
	ex.perLabel[label]++
	if ex.perLabel[label] <= ex.maxViolPerLabel {
		ex.violations = append(ex.violations, Violation{Label: label, Model: ex.modelNamed(witness), PathNo: ex.pathNo,
			Detail: strings.Join(ex.observed, " | ")})
	}
	assume()
}

func (ex *Exec) allHold(ts []*Term, m Model) bool {
	for _, t := range ts {
		if Eval(t, m) == 0 {
			return false
		}
	}
	return true
}

// Concretize forks over the feasible values of t.
func (ex *Exec) Concretize(t *Term, what string) uint64 {
	if t.IsConst() {
		return t.k
	}
	if v, ok := ex.known[t.id]; ok {
		return v
	}
	for i := 0; ; i++ {
		if i > 1024 {
			if os.Getenv("GOSYMEX_DEBUG") != "" {
				fmt.Fprintf(os.Stderr, "DEBUG concretize loop: t=%s model-eval=%d pos=%d replayN=%d facts=%v\n", t, Eval(t, ex.model), ex.pos, ex.replayN, len(ex.facts))
				for _, c := range ex.pc {
					if Eval(c, ex.model) == 0 {
						fmt.Fprintf(os.Stderr, "  pc term false under model: %s\n", c)
					}
				}
			}
			ex.endPath("unsupported", "concretisation of "+what+" exceeds 1024 values")
		}
		var v uint64
		if ex.pos < ex.replayN {
			// a candidate that the path condition already pins down was decided from the
			// fact cache in the original run as well (no event recorded)
			if ex.model != nil {
				v0 := Eval(t, ex.model)
				c := ex.ts.Eq(t, Const(int(t.w), v0))
				if d, ok := ex.facts[c.id]; c.IsConst() && c.k != 0 || ok && d {
					ex.known[t.id] = v0
					return v0
				}
				if c.op == OpBNot {
					if d, ok := ex.facts[c.a.id]; ok && !d {
						ex.known[t.id] = v0
						return v0
					}
				}
			}
			v = ex.events[ex.pos].val
		} else {
			ex.ensureModel()
			v = Eval(t, ex.model)
		}
		if ex.branchV(ex.ts.Eq(t, Const(int(t.w), v)), v) {
			ex.known[t.id] = v
			return v
		}
	}
}

func (ex *Exec) Reach(label string) { ex.stats.Reached[label]++ }

// ---- DFS driver ----

type JobResult struct {
	Harness    string           `json:"harness"`
	Params     map[string]int64 `json:"params"`
	Stats      Stats            `json:"stats"`
	Violations []Violation      `json:"violations"`
	Samples    []PathSample     `json:"samples"`
	Notes      map[string]int   `json:"notes"`
	Functions  map[string]int64 `json:"functions_encoded"`
	SolverSec  float64          `json:"solver_s"`
	Queries    int              `json:"solver_queries"`
	OneShot    int              `json:"oneshot_queries"`
	WallSec    float64          `json:"wall_s"`
	Truncated  bool             `json:"truncated"`
	Error      string           `json:"error,omitempty"`
	Vars       []string         `json:"vars,omitempty"`
}

func (ex *Exec) Explore(run func()) {
	ex.baseLevel = ex.solver.level
	ex.stack = []pending{{nil, Model{}}}
	for len(ex.stack) > 0 {
		if ex.maxPaths > 0 && ex.pathNo >= ex.maxPaths || (!ex.deadline.IsZero() && time.Now().After(ex.deadline)) {
			ex.truncated = true
			ex.note(fmt.Sprintf("exploration truncated with %d pending prefixes", len(ex.stack)))
			break
		}
		flood := ""
		for l, n := range ex.perLabel {
			if n >= 200 {
				flood = l
			}
		}
		if flood != "" {
			// hundreds of counterexamples to one assertion (e.g. one per value of an enumerated
			// length): the recorded witnesses decide; the unexplored rest is reported as truncated
			ex.truncated = true
			ex.note(fmt.Sprintf("exploration stopped after %d counterexamples to %q with %d pending prefixes", ex.perLabel[flood], flood, len(ex.stack)))
			break
		}
		p := ex.stack[len(ex.stack)-1]
		ex.stack = ex.stack[:len(ex.stack)-1]
		ex.runPath(p, run)
	}
	ex.solver.PopTo(ex.baseLevel)
}

func (ex *Exec) runPath(p pending, run func()) {
	ex.pathNo++
	ex.stats.Paths++
	n := len(p.events)
	// pop solver to the level before the flipped event
	lvl := ex.baseLevel
	if n >= 2 {
		lvl = ex.evLevel[n-2]
	}
	if n >= 1 {
		ex.solver.PopTo(lvl)
	} else {
		ex.solver.PopTo(ex.baseLevel)
	}
	newLevels := make([]int, n, n+64)
	copy(newLevels, ex.evLevel[:min(n, len(ex.evLevel))])
	ex.evLevel = newLevels
	ex.events = append([]event(nil), p.events...)
	ex.replayN = n
	ex.pos = 0
	ex.model = p.model
	ex.observed = ex.observed[:0]
	ex.obsVals = ex.obsVals[:0]
	ex.facts = map[int32]bool{}
	ex.known = map[int32]uint64{}
	ex.doms = map[int32]*domain{}
	ex.multi = map[int32]bool{}
	ex.pc = ex.pc[:0]
	ex.fuel = ex.maxFuel
	ex.depth = 0
	end := ex.runGuarded(run)
	if end.reason == "hang" || end.reason == "fuel" {
		// a blocked single goroutine (channel deadlock) or an exhausted instruction budget is a
		// candidate non-termination: record it as a witness (native replay under a watchdog decides;
		// a budget that the native run does not confirm stays an inconclusive path end)
		func() {
			defer func() { recover() }()
			ex.ensureModel()
		}()
		if ex.model != nil {
			ex.perLabel["harness:terminates"]++
			if ex.perLabel["harness:terminates"] <= ex.maxViolPerLabel {
				ex.violations = append(ex.violations, Violation{Label: "harness:terminates", Model: ex.modelNamed(ex.model), PathNo: ex.pathNo, Detail: end.detail})
			}
		}
	}
	ex.stats.Ends[end.reason]++
	if len(ex.samples) < 12 || end.reason != "ok" && len(ex.samples) < 40 {
		s := PathSample{PathNo: ex.pathNo, End: end.reason, Events: len(ex.events), Observed: append([]string(nil), ex.observed...)}
		if end.detail != "" {
			s.End = end.reason + ": " + end.detail
		}
		if ex.model == nil && (end.reason == "ok" || end.reason == "unsupported") {
			func() {
				defer func() { recover() }()
				ex.ensureModel()
			}()
		}
		if ex.model != nil {
			dm := ex.diversify(ex.model)
			s.Model = ex.modelNamed(dm)
			if s.Model == nil {
				s.Model = map[string]uint64{}
			}
			if ex.render != nil {
				for _, o := range ex.obsVals {
					s.Trace = append(s.Trace, o.label+"="+ex.render(o.v, dm))
				}
			}
		}
		ex.samples = append(ex.samples, s)
	}
}

func (ex *Exec) runGuarded(run func()) (end pathEnd) {
	defer func() {
		if r := recover(); r != nil {
			if pe, ok := r.(pathEnd); ok {
				end = pe
				return
			}
			panic(r)
		}
	}()
	run()
	return pathEnd{"ok", ""}
}

func sortedKeys(m map[string]int) []string {
	ks := make([]string, 0, len(m))
	for k := range m {
		ks = append(ks, k)
	}
	sort.Strings(ks)
	return ks
}

// excludeTerms builds the negated known-finding predicates for a label.
func (ex *Exec) excludeTerms(label string) []*Term {
	preds := ex.exclPreds[label]
	if len(preds) == 0 {
		return nil
	}
	var out []*Term
	for _, conj := range preds {
		c := tTrue
		ok := true
		for _, p := range conj {
			v, found := ex.ts.vars[p.Var]
			if !found {
				ok = false
				break
			}
			c = ex.ts.BAnd(c, predTerm(ex.ts, v, p))
		}
		if ok {
			out = append(out, ex.ts.BNot(c))
		}
	}
	return out
}

// diversify perturbs the variables of a model pseudo-randomly while keeping every
// asserted condition of the path true (evaluated, not solved); used for the sampled
// assignments that are replayed natively for translation validation.
func (ex *Exec) diversify(m Model) Model {
	out := Model{}
	for k, v := range m {
		out[k] = v
	}
	holds := func() bool {
		c := &evalCtx{m: out, memo: map[int32]uint64{}}
		for _, t := range ex.pc {
			if c.eval(t) == 0 {
				return false
			}
		}
		return true
	}
	if !holds() {
		return m
	}
	seed := ex.seed*2654435761 + uint64(ex.pathNo)*40503 + 12345
	next := func() uint64 {
		seed ^= seed << 13
		seed ^= seed >> 7
		seed ^= seed << 17
		return seed
	}
	if len(ex.pc) > 400 {
		return m
	}
	for _, v := range ex.ts.varSeq {
		old, had := out[v.id]
		for try := 0; try < 3; try++ {
			out[v.id] = next() & mask(v.w)
			if holds() {
				had = true
				break
			}
			if had || true {
				out[v.id] = old
			}
		}
		_ = had
	}
	return out
}
