package main

// One live solver process per job (z3 -in), SMT-LIB2 text, push/pop mirroring the
// decision stack.  Term definitions are emitted as (define-fun tN ...) at the level
// where they are first needed and forgotten when that level is popped.

import (
	"bufio"
	"fmt"
	"io"
	"os"
	"os/exec"
	"strconv"
	"strings"
	"time"
)

type SatResult int

const (
	Unsat SatResult = iota
	Sat
	Unknown
)

func (r SatResult) String() string { return [...]string{"unsat", "sat", "unknown"}[r] }

type Solver struct {
	name    string
	cmd     *exec.Cmd
	in      io.WriteCloser
	out     *bufio.Reader
	level   int
	defined map[int32]int // term id -> level at which it was defined/declared
	byLevel [][]int32
	store   *TermStore
	log     io.Writer
	timeout int // ms per check-sat

	Queries   int
	SolverSec float64
	Errors    int
	dead      bool

	asserted     [][]*Term // per level: the asserted terms (for one-shot fallback queries)
	sent         int       // levels actually pushed in the solver process (<= level)
	helper       *Solver   // non-incremental fallback process (z3 is much stronger without push/pop)
	fastMs       int
	OneShot      int
	OneShotSec   float64
	Restarts     int
	resendBase   bool
	cross        *Solver
	CrossQueries int
	isHelper     bool
}

func NewSolver(kind string, store *TermStore, timeoutMs int) (*Solver, error) {
	var cmd *exec.Cmd
	switch kind {
	case "z3":
		cmd = exec.Command("z3", "-in", "-smt2")
	case "z3-new":
		cmd = exec.Command("z3-new", "-in", "-smt2")
	default:
		return nil, fmt.Errorf("unknown solver %q", kind)
	}
	in, err := cmd.StdinPipe()
	if err != nil {
		return nil, err
	}
	outp, err := cmd.StdoutPipe()
	if err != nil {
		return nil, err
	}
	cmd.Stderr = os.Stderr
	if err := cmd.Start(); err != nil {
		return nil, err
	}
	s := &Solver{name: kind, cmd: cmd, in: in, out: bufio.NewReaderSize(outp, 1<<16),
		defined: map[int32]int{}, byLevel: [][]int32{nil}, store: store, timeout: timeoutMs, asserted: [][]*Term{nil}}
	s.send("(set-option :print-success false)")
	s.send("(set-option :produce-models true)")
	s.fastMs = 1500
	if timeoutMs < s.fastMs {
		s.fastMs = timeoutMs
	}
	s.send(fmt.Sprintf("(set-option :timeout %d)", s.fastMs))
	return s, nil
}

func (s *Solver) Close() {
	if s.helper != nil {
		s.helper.Close()
	}
	if s.cross != nil {
		s.cross.Close()
	}
	if s.cmd != nil && !s.dead {
		s.in.Close()
		done := make(chan struct{})
		go func() { s.cmd.Wait(); close(done) }()
		select {
		case <-done:
		case <-time.After(2 * time.Second):
			s.cmd.Process.Kill()
		}
		s.dead = true
	}
}

func (s *Solver) send(line string) {
	if s.log != nil {
		fmt.Fprintln(s.log, line)
	}
	io.WriteString(s.in, line)
	io.WriteString(s.in, "\n")
}

// Push/Assert/PopTo are lazy: levels above s.sent exist only in s.asserted until a
// check needs them (paths decided entirely by the finite-domain filter never reach z3).
func (s *Solver) Push() {
	s.level++
	s.asserted = append(s.asserted, nil)
}

func (s *Solver) flush() {
	if s.resendBase {
		s.resendBase = false
		for _, t := range s.asserted[0] {
			s.ensure(t)
			s.send(fmt.Sprintf("(assert %s)", ref(t)))
		}
	}
	for s.sent < s.level {
		s.sent++
		s.send("(push 1)")
		s.byLevel = append(s.byLevel, nil)
		for _, t := range s.asserted[s.sent] {
			s.ensure(t)
			s.send(fmt.Sprintf("(assert %s)", ref(t)))
		}
	}
}

func (s *Solver) PopTo(level int) {
	if level > s.level {
		panic(fmt.Sprintf("PopTo(%d) above current level %d", level, s.level))
	}
	if level == s.level {
		return
	}
	if level < s.sent {
		n := s.sent - level
		s.send(fmt.Sprintf("(pop %d)", n))
		for l := s.sent; l > level; l-- {
			for _, id := range s.byLevel[l] {
				delete(s.defined, id)
			}
		}
		s.byLevel = s.byLevel[:level+1]
		s.sent = level
	}
	s.asserted = s.asserted[:level+1]
	s.level = level
}

func (s *Solver) ensure(t *Term) {
	if t == nil || t.op == OpConst {
		return
	}
	if _, ok := s.defined[t.id]; ok {
		return
	}
	// iterative post-order to survive very deep terms
	type fr struct {
		t    *Term
		next int
	}
	stack := []fr{{t, 0}}
	for len(stack) > 0 {
		f := &stack[len(stack)-1]
		kids := [3]*Term{f.t.a, f.t.b, f.t.c}
		pushed := false
		for f.next < 3 {
			k := kids[f.next]
			f.next++
			if k == nil || k.op == OpConst {
				continue
			}
			if _, ok := s.defined[k.id]; ok {
				continue
			}
			stack = append(stack, fr{k, 0})
			pushed = true
			break
		}
		if pushed {
			continue
		}
		u := f.t
		stack = stack[:len(stack)-1]
		if _, ok := s.defined[u.id]; ok {
			continue
		}
		if u.op == OpVar {
			s.send(fmt.Sprintf("(declare-const |%s| %s)", u.name, sortOf(u.w)))
		} else {
			if fpProducing(u) {
				s.send(fmt.Sprintf("(define-fun t%df () (_ FloatingPoint %s) %s)", u.id, fpSort(u.w), fpBodySMT(u)))
			}
			s.send(fmt.Sprintf("(define-fun t%d () %s %s)", u.id, sortOf(u.w), bodySMT(u)))
		}
		s.defined[u.id] = s.sent
		s.byLevel[s.sent] = append(s.byLevel[s.sent], u.id)
	}
}

func (s *Solver) Assert(t *Term) {
	if t.w != 0 {
		panic("Assert of non-bool term")
	}
	s.asserted[s.level] = append(s.asserted[s.level], t)
	if s.level == s.sent {
		s.ensure(t)
		s.send(fmt.Sprintf("(assert %s)", ref(t)))
	}
}

func (s *Solver) readLine() (string, error) {
	line, err := s.out.ReadString('\n')
	return strings.TrimSpace(line), err
}

// Check decides the current assertion stack: first incrementally under a short time
// limit, then (if that is inconclusive) as a one-shot query in a fresh solver context.
func (s *Solver) Check() (SatResult, Model) {
	r, m := s.checkInc()
	if r != Unknown || s.isHelper {
		return r, m
	}
	// z3 4.8.12 can answer the commands that follow a timed-out incremental check with
	// "(error ... canceled)": restart the incremental process; the assertion stack is
	// re-sent lazily from s.asserted
	s.restart()
	return s.checkOneShot()
}

func (s *Solver) restart() {
	if s.cmd != nil {
		s.in.Close()
		s.cmd.Process.Kill()
		s.cmd.Wait()
	}
	n, err := NewSolver(s.name, s.store, s.timeout)
	if err != nil {
		s.dead = true
		return
	}
	s.cmd, s.in, s.out = n.cmd, n.in, n.out
	s.sent = 0
	s.defined = map[int32]int{}
	s.byLevel = [][]int32{nil}
	s.dead = false
	s.Restarts++
	// level-0 assertions are re-sent by flush as well
	s.resendBase = true
}

// CrossCheck re-decides the current assertion stack plus extra as a one-shot query in a
// second solver implementation (thorough tier: "diff two solvers").
func (s *Solver) CrossCheck(kind string, extra ...*Term) SatResult {
	if s.cross == nil || s.cross.dead {
		h, err := NewSolver(kind, s.store, s.timeout)
		if err != nil {
			return Unknown
		}
		h.isHelper = true
		s.cross = h
	}
	h := s.cross
	h.send("(reset)")
	h.send("(set-option :print-success false)")
	h.send("(set-option :produce-models true)")
	h.send(fmt.Sprintf("(set-option :timeout %d)", s.timeout))
	h.level, h.sent = 0, 0
	h.defined = map[int32]int{}
	h.byLevel = [][]int32{nil}
	h.asserted = [][]*Term{nil}
	for _, lv := range s.asserted {
		for _, t := range lv {
			h.Assert(t)
		}
	}
	for _, t := range extra {
		h.Assert(t)
	}
	r, _ := h.checkInc()
	s.CrossQueries++
	return r
}

func (s *Solver) checkOneShot() (SatResult, Model) {
	t0 := time.Now()
	if s.helper == nil || s.helper.dead {
		h, err := NewSolver(s.name, s.store, s.timeout)
		if err != nil {
			return Unknown, nil
		}
		h.isHelper = true
		s.helper = h
	}
	h := s.helper
	h.send("(reset)")
	h.send("(set-option :print-success false)")
	h.send("(set-option :produce-models true)")
	h.send(fmt.Sprintf("(set-option :timeout %d)", s.timeout))
	h.level, h.sent = 0, 0
	h.defined = map[int32]int{}
	h.byLevel = [][]int32{nil}
	h.asserted = [][]*Term{nil}
	h.log = s.log
	for _, lv := range s.asserted {
		for _, t := range lv {
			h.Assert(t)
		}
	}
	r, m := h.checkInc()
	s.OneShot++
	s.OneShotSec += time.Since(t0).Seconds()
	s.SolverSec += time.Since(t0).Seconds()
	s.Errors += h.Errors
	h.Errors = 0
	return r, m
}

// checkInc runs check-sat; on Sat it fetches values for all declared variables that
// are currently in scope and returns them as a model.
func (s *Solver) checkInc() (SatResult, Model) {
	s.flush()
	t0 := time.Now()
	s.Queries++
	s.send("(check-sat)")
	res := Unknown
	for {
		line, err := s.readLine()
		if err != nil {
			s.Errors++
			s.dead = true
			return Unknown, nil
		}
		if line == "" {
			continue
		}
		if strings.HasPrefix(line, "(error") {
			s.Errors++
			fmt.Fprintf(os.Stderr, "solver %s: %s\n", s.name, line)
			s.SolverSec += time.Since(t0).Seconds()
			return Unknown, nil
		}
		switch line {
		case "sat":
			res = Sat
		case "unsat":
			res = Unsat
		case "unknown", "timeout":
			res = Unknown
		default:
			fmt.Fprintf(os.Stderr, "solver %s: unexpected output %q\n", s.name, line)
			s.Errors++
			continue
		}
		break
	}
	var m Model
	if res == Sat {
		m = s.getModel()
		if m == nil {
			res = Unknown
		}
	}
	s.SolverSec += time.Since(t0).Seconds()
	return res, m
}

func (s *Solver) getModel() Model {
	var vars []*Term
	for _, v := range s.store.varSeq {
		if _, ok := s.defined[v.id]; ok {
			vars = append(vars, v)
		}
	}
	m := Model{}
	if len(vars) == 0 {
		return m
	}
	var sb strings.Builder
	sb.WriteString("(get-value (")
	for _, v := range vars {
		sb.WriteString(ref(v))
		sb.WriteByte(' ')
	}
	sb.WriteString("))")
	s.send(sb.String())
	// Response: ((|a| #x01) (|b| #b0) ...) possibly across lines. Read until parens balance.
	depth, started := 0, false
	var resp strings.Builder
	for {
		line, err := s.out.ReadString('\n')
		if err != nil {
			s.Errors++
			s.dead = true
			return nil
		}
		if strings.HasPrefix(strings.TrimSpace(line), "(error") {
			s.Errors++
			fmt.Fprintf(os.Stderr, "solver %s: %s", s.name, line)
			return nil
		}
		inBar := false
		for _, ch := range line {
			switch {
			case ch == '|':
				inBar = !inBar
			case inBar:
			case ch == '(':
				depth++
				started = true
			case ch == ')':
				depth--
			}
		}
		resp.WriteString(line)
		if started && depth <= 0 {
			break
		}
	}
	toks := tokenizeSexp(resp.String())
	// expect ( ( name value ) ... )
	i := 0
	next := func() string {
		if i < len(toks) {
			t := toks[i]
			i++
			return t
		}
		return ""
	}
	if next() != "(" {
		return nil
	}
	for _, v := range vars {
		if next() != "(" {
			return nil
		}
		next() // name
		val := next()
		var x uint64
		switch {
		case val == "true":
			x = 1
		case val == "false":
			x = 0
		case strings.HasPrefix(val, "#x"):
			x, _ = strconv.ParseUint(val[2:], 16, 64)
		case strings.HasPrefix(val, "#b"):
			x, _ = strconv.ParseUint(val[2:], 2, 64)
		case val == "(":
			// (_ bvN w)
			next()
			bv := next()
			next()
			next()
			x, _ = strconv.ParseUint(strings.TrimPrefix(bv, "bv"), 10, 64)
		default:
			return nil
		}
		if next() != ")" {
			return nil
		}
		m[v.id] = x
	}
	return m
}

func tokenizeSexp(s string) []string {
	var toks []string
	i := 0
	for i < len(s) {
		c := s[i]
		switch {
		case c == '(' || c == ')':
			toks = append(toks, string(c))
			i++
		case c == ' ' || c == '\n' || c == '\t' || c == '\r':
			i++
		case c == '|':
			j := strings.IndexByte(s[i+1:], '|')
			if j < 0 {
				j = len(s) - i - 2
			}
			toks = append(toks, s[i:i+j+2])
			i += j + 2
		default:
			j := i
			for j < len(s) && !strings.ContainsRune("() \n\t\r", rune(s[j])) {
				j++
			}
			toks = append(toks, s[i:j])
			i = j
		}
	}
	return toks
}

// CheckWith asserts extra under a temporary push, checks, and pops.
func (s *Solver) CheckWith(extra ...*Term) (SatResult, Model) {
	s.Push()
	for _, e := range extra {
		s.Assert(e)
	}
	r, m := s.Check()
	s.PopTo(s.level - 1)
	return r, m
}
