package main

// Value representation of the symbolic interpreter (layout follows x/tools
// go/ssa/interp: boxed values, pointers are Go pointers to cells), with every scalar
// lifted to a *Term.

import (
	"fmt"
	"go/constant"
	"go/types"
	"strconv"
	"strings"

	"golang.org/x/tools/go/ssa"
)

type Value interface{}

type Struct []Value
type Array []Value
type Tuple []Value

type Slice struct {
	s      []Value
	nonNil bool
}

type Iface struct {
	t types.Type
	v Value
}

type Closure struct {
	fn  *ssa.Function
	env []Value
}

type mapEntry struct {
	k Value
	v Value
}

type MapV struct {
	entries []*mapEntry
	kt      types.Type
	id      int
	sidx    map[string]*mapEntry // entries whose key is a concrete Go string (exact lookup without a scan)
	nonStr  int                  // entries with any other key
}

// idxKey: a key that can be looked up exactly - a concrete Go string or a constant integer term.
func idxKey(k Value) (string, bool) {
	switch k := k.(type) {
	case string:
		return "s" + k, true
	case *Term:
		if k.IsConst() {
			return fmt.Sprintf("t%d:%d", k.w, k.k), true
		}
	}
	return "", false
}

func (m *MapV) add(e *mapEntry) {
	if s, ok := idxKey(e.k); ok {
		if m.sidx == nil {
			m.sidx = map[string]*mapEntry{}
		}
		m.sidx[s] = e
	} else {
		m.nonStr++
	}
	m.entries = append(m.entries, e)
}

func (m *MapV) removeAt(i int) {
	e := m.entries[i]
	if s, ok := idxKey(e.k); ok {
		delete(m.sidx, s)
	} else {
		m.nonStr--
	}
	m.entries = append(append([]*mapEntry{}, m.entries[:i]...), m.entries[i+1:]...)
}

type ChanV struct {
	buf    []Value
	cap    int
	closed bool
}

// NativeObj wraps a host object that target code only holds a pointer to
// (e.g. *regexp.Regexp); methods on it are intrinsics.
type NativeObj struct {
	kind string
	obj  interface{}
}

// runtimeError is the dynamic type of panics raised by the modelled Go runtime.
type runtimeError struct {
	msg string
}

type targetPanic struct {
	v Value // an Iface
}

type strIter struct {
	ip       *Interp
	s        Value
	b        []*Term
	cs       string
	concrete bool
	i        int
}

type mapIter struct {
	m    *MapV
	keys []*mapEntry
	i    int
}

type bad struct{}

// ---- type helpers ----

func deref(t types.Type) types.Type {
	if p, ok := t.Underlying().(*types.Pointer); ok {
		return p.Elem()
	}
	panic(fmt.Sprintf("deref of non-pointer %v", t))
}

func basicInfo(t types.Type) (w int, signed, isInt, isFloat bool) {
	b, ok := t.Underlying().(*types.Basic)
	if !ok {
		return 0, false, false, false
	}
	switch b.Kind() {
	case types.Bool, types.UntypedBool:
		return 0, false, false, false
	case types.Int, types.Int64, types.UntypedInt:
		return 64, true, true, false
	case types.Int8:
		return 8, true, true, false
	case types.Int16:
		return 16, true, true, false
	case types.Int32, types.UntypedRune:
		return 32, true, true, false
	case types.Uint, types.Uint64, types.Uintptr:
		return 64, false, true, false
	case types.Uint8:
		return 8, false, true, false
	case types.Uint16:
		return 16, false, true, false
	case types.Uint32:
		return 32, false, true, false
	case types.Float32:
		return 32, true, false, true
	case types.Float64, types.UntypedFloat:
		return 64, true, false, true
	}
	return 0, false, false, false
}

func isString(t types.Type) bool {
	b, ok := t.Underlying().(*types.Basic)
	return ok && b.Info()&types.IsString != 0
}

func isBool(t types.Type) bool {
	b, ok := t.Underlying().(*types.Basic)
	return ok && b.Info()&types.IsBoolean != 0
}

func constValue(c *ssa.Const) Value {
	if c.Value == nil {
		return zero(c.Type())
	}
	t, ok := c.Type().Underlying().(*types.Basic)
	if !ok {
		panic(fmt.Sprintf("constValue: %s", c))
	}
	switch {
	case t.Info()&types.IsBoolean != 0:
		return Bool(constant.BoolVal(c.Value))
	case t.Info()&types.IsString != 0:
		if c.Value.Kind() == constant.String {
			return constant.StringVal(c.Value)
		}
		return string(rune(c.Int64()))
	}
	w, signed, isInt, isFloat := basicInfo(t)
	switch {
	case isInt:
		if signed {
			return Const(w, uint64(c.Int64()))
		}
		return Const(w, c.Uint64())
	case isFloat:
		return Const(w, fbits(c.Float64(), uint8(w)))
	}
	panic(fmt.Sprintf("constValue: unsupported %s", c))
}

func zero(t types.Type) Value {
	switch t := t.(type) {
	case *types.Basic:
		if t.Info()&types.IsUntyped != 0 {
			t = types.Default(t).(*types.Basic)
		}
		switch {
		case t.Info()&types.IsBoolean != 0:
			return tFalse
		case t.Info()&types.IsString != 0:
			return ""
		case t.Kind() == types.UnsafePointer:
			return (*Value)(nil)
		}
		w, _, isInt, isFloat := basicInfo(t)
		if isInt || isFloat {
			return Const(w, 0)
		}
		panic(fmt.Sprint("zero for unexpected basic type: ", t))
	case *types.Pointer:
		return (*Value)(nil)
	case *types.Array:
		a := make(Array, t.Len())
		for i := range a {
			a[i] = zero(t.Elem())
		}
		return a
	case *types.Named:
		return zero(t.Underlying())
	case *types.Alias:
		return zero(types.Unalias(t))
	case *types.Interface:
		return Iface{}
	case *types.Slice:
		return Slice{}
	case *types.Struct:
		s := make(Struct, t.NumFields())
		for i := range s {
			s[i] = zero(t.Field(i).Type())
		}
		return s
	case *types.Tuple:
		if t.Len() == 1 {
			return zero(t.At(0).Type())
		}
		s := make(Tuple, t.Len())
		for i := range s {
			s[i] = zero(t.At(i).Type())
		}
		return s
	case *types.Chan:
		return (*ChanV)(nil)
	case *types.Map:
		return (*MapV)(nil)
	case *types.Signature:
		return (*ssa.Function)(nil)
	}
	panic(fmt.Sprint("zero: unexpected ", t))
}

// copyVal gives value semantics to aggregates.
func copyVal(v Value) Value {
	switch v := v.(type) {
	case Struct:
		c := make(Struct, len(v))
		for i := range v {
			c[i] = copyVal(v[i])
		}
		return c
	case Array:
		c := make(Array, len(v))
		for i := range v {
			c[i] = copyVal(v[i])
		}
		return c
	case Tuple:
		panic("copyVal of tuple")
	}
	return v
}

func asTerm(v Value) *Term {
	t, ok := v.(*Term)
	if !ok {
		panic(fmt.Sprintf("expected scalar term, got %T", v))
	}
	return t
}

// ---- debugging / observation strings ----

func (ip *Interp) show(v Value) string {
	switch v := v.(type) {
	case nil:
		return "<nil>"
	case *Term:
		return v.String()
	case string:
		return fmt.Sprintf("%q", v)
	case *SymStr:
		return v.debug()
	case Struct:
		var parts []string
		for _, e := range v {
			parts = append(parts, ip.show(e))
		}
		return "{" + strings.Join(parts, ",") + "}"
	case Array:
		var parts []string
		for _, e := range v {
			parts = append(parts, ip.show(e))
		}
		return "[" + strings.Join(parts, ",") + "]"
	case Slice:
		if !v.nonNil {
			return "[]nil"
		}
		var parts []string
		for i, e := range v.s {
			if i > 40 {
				parts = append(parts, "...")
				break
			}
			parts = append(parts, ip.show(e))
		}
		return "[" + strings.Join(parts, " ") + "]"
	case Iface:
		if v.t == nil {
			return "nil-iface"
		}
		return fmt.Sprintf("(%s)%s", v.t, ip.show(v.v))
	case *Value:
		if v == nil {
			return "nil-ptr"
		}
		return "&" + ip.show(*v)
	case runtimeError:
		return "runtime error: " + v.msg
	}
	return fmt.Sprintf("%T", v)
}

// renderObs renders an observed value under a model in the format of the native
// runtime's Observe (strings %q, []byte hex, []string %q, integers decimal).
func (ip *Interp) renderObs(v interface{}, m Model) string {
	it, ok := v.(Iface)
	if !ok {
		return "?"
	}
	if it.t == nil {
		return "<nil>"
	}
	evalStr := func(sv Value) (string, bool) {
		switch sv := sv.(type) {
		case string:
			return sv, true
		case *SymStr:
			var buf []byte
			for _, g := range sv.segs {
				switch g.kind {
				case segBytes:
					for _, b := range g.b {
						buf = append(buf, byte(Eval(b, m)))
					}
				case segNum:
					x := Eval(g.num, m)
					var s string
					if g.signed {
						s = strconv.FormatInt(sext(x, g.num.w), g.base)
					} else {
						s = strconv.FormatUint(x, g.base)
					}
					if g.upper {
						s = strings.ToUpper(s)
					}
					for len(s) < g.minw {
						s = "0" + s
					}
					buf = append(buf, s...)
				default:
					return "", false
				}
			}
			return string(buf), true
		}
		return "", false
	}
	switch val := it.v.(type) {
	case string, *SymStr:
		s, ok := evalStr(val)
		if !ok {
			return "?"
		}
		return fmt.Sprintf("%q", s)
	case *Term:
		x := Eval(val, m)
		if isBool(it.t) {
			return fmt.Sprintf("%v", x != 0)
		}
		_, signed, isInt, _ := basicInfo(it.t)
		if !isInt {
			return "?"
		}
		if signed {
			return strconv.FormatInt(sext(x, val.w), 10)
		}
		return strconv.FormatUint(x, 10)
	case Slice:
		et := it.t.Underlying().(*types.Slice).Elem()
		if isString(et) {
			var parts []string
			for _, e := range val.s {
				s, ok := evalStr(e)
				if !ok {
					return "?"
				}
				parts = append(parts, s)
			}
			return fmt.Sprintf("%q", parts)
		}
		var buf []byte
		for _, e := range val.s {
			t, ok := e.(*Term)
			if !ok || t.w != 8 {
				return "?"
			}
			buf = append(buf, byte(Eval(t, m)))
		}
		return fmt.Sprintf("%x", buf)
	}
	return "?"
}
