package main

import (
	"fmt"
	"go/token"
	"go/types"
	"math"
	"unicode/utf8"
	"unsafe"

	"golang.org/x/tools/go/ssa"
)

// ---- unary / binary operators ----

func (ip *Interp) unop(instr *ssa.UnOp, x Value) Value {
	ts := ip.ts
	switch instr.Op {
	case token.ARROW:
		ch := x.(*ChanV)
		if ch == nil {
			ip.ex.endPath("hang", "receive from nil channel")
		}
		var v Value
		ok := false
		if len(ch.buf) > 0 {
			v, ok = ch.buf[0], true
			ch.buf = ch.buf[1:]
		} else if ch.closed {
			v = zero(instr.X.Type().Underlying().(*types.Chan).Elem())
		} else {
			ip.ex.endPath("hang", "receive on empty channel with no sender (deadlock)")
		}
		if instr.CommaOk {
			return Tuple{v, Bool(ok)}
		}
		return v
	case token.SUB:
		_, _, _, isFloat := basicInfo(instr.X.Type())
		if isFloat {
			return ts.FNeg(asTerm(x))
		}
		return ts.Neg(asTerm(x))
	case token.MUL:
		return ip.load(x)
	case token.NOT:
		return ts.BNot(asTerm(x))
	case token.XOR:
		return ts.Not(asTerm(x))
	}
	panic(fmt.Sprintf("invalid unary op %s %T", instr.Op, x))
}

func (ip *Interp) binop(op token.Token, t types.Type, x, y Value) Value {
	ts := ip.ts
	switch op {
	case token.EQL:
		return ip.equals(t, x, y)
	case token.NEQ:
		return ts.BNot(ip.equals(t, x, y))
	}
	if isString(t) {
		switch op {
		case token.ADD:
			r := concatStr(x, y)
			ip.noteAllocConst("string-concat", ip.approxLen(r))
			return r
		case token.LSS:
			return ip.strLess(x, y)
		case token.GTR:
			return ip.strLess(y, x)
		case token.LEQ:
			return ts.BNot(ip.strLess(y, x))
		case token.GEQ:
			return ts.BNot(ip.strLess(x, y))
		}
		panic("string binop " + op.String())
	}
	w, signed, isInt, isFloat := basicInfo(t)
	a := asTerm(x)
	if isFloat {
		b := asTerm(y)
		switch op {
		case token.ADD:
			return ts.FArith(OpFAdd, a, b)
		case token.SUB:
			return ts.FArith(OpFSub, a, b)
		case token.MUL:
			return ts.FArith(OpFMul, a, b)
		case token.QUO:
			return ts.FArith(OpFDiv, a, b)
		case token.LSS:
			return ts.FCmp(OpFLt, a, b)
		case token.LEQ:
			return ts.FCmp(OpFLe, a, b)
		case token.GTR:
			return ts.FCmp(OpFLt, b, a)
		case token.GEQ:
			return ts.FCmp(OpFLe, b, a)
		}
		panic("float binop " + op.String())
	}
	if isBool(t) {
		b := asTerm(y)
		switch op {
		case token.LAND, token.AND:
			return ts.BAnd(a, b)
		case token.LOR, token.OR:
			return ts.BOr(a, b)
		}
		panic("bool binop " + op.String())
	}
	if !isInt {
		panic(fmt.Sprintf("binop %s on %s", op, t))
	}
	b := asTerm(y)
	switch op {
	case token.SHL, token.SHR:
		// shift count may have any integer type; negative signed counts panic
		cnt := b
		if cnt.w != 0 && !cnt.IsConst() || cnt.IsConst() {
			// handled below
		}
		return ip.shift(op, a, cnt, w, signed)
	}
	switch op {
	case token.ADD:
		return ts.Bin(OpAdd, a, b)
	case token.SUB:
		return ts.Bin(OpSub, a, b)
	case token.MUL:
		return ts.Bin(OpMul, a, b)
	case token.QUO, token.REM:
		if !ip.ex.Branch(ts.BNot(ts.Eq(b, Const(w, 0)))) {
			ip.throw("integer divide by zero")
		}
		switch {
		case op == token.QUO && signed:
			return ts.Bin(OpSDiv, a, b)
		case op == token.QUO:
			return ts.Bin(OpUDiv, a, b)
		case signed:
			return ts.Bin(OpSRem, a, b)
		default:
			return ts.Bin(OpURem, a, b)
		}
	case token.AND:
		return ts.Bin(OpAnd, a, b)
	case token.OR:
		return ts.Bin(OpOr, a, b)
	case token.XOR:
		return ts.Bin(OpXor, a, b)
	case token.AND_NOT:
		return ts.Bin(OpAnd, a, ts.Not(b))
	case token.LSS:
		if signed {
			return ts.Cmp(OpSlt, a, b)
		}
		return ts.Cmp(OpUlt, a, b)
	case token.LEQ:
		if signed {
			return ts.Cmp(OpSle, a, b)
		}
		return ts.Cmp(OpUle, a, b)
	case token.GTR:
		if signed {
			return ts.Cmp(OpSlt, b, a)
		}
		return ts.Cmp(OpUlt, b, a)
	case token.GEQ:
		if signed {
			return ts.Cmp(OpSle, b, a)
		}
		return ts.Cmp(OpUle, b, a)
	}
	panic(fmt.Sprintf("invalid binary op: %s on %s", op, t))
}

// shift implements x<<cnt and x>>cnt.  The static type of the count is not available
// here, so its signedness is taken from the term width convention: ssa gives the
// count its own type; negative counts of signed type panic at run time.  The engine
// receives the count's signedness through shiftSigned (set by the caller frame).
func (ip *Interp) shift(op token.Token, a, cnt *Term, w int, signed bool) Value {
	ts := ip.ts
	// normalise count to width w with saturation
	var c *Term
	switch {
	case int(cnt.w) == w:
		c = cnt
	case int(cnt.w) < w:
		c = ts.ZExt(cnt, w)
	default:
		big := ts.Cmp(OpUle, Const(int(cnt.w), uint64(w)), cnt)
		c = ts.Ite(big, Const(w, uint64(w)), ts.Extract(cnt, w-1, 0))
	}
	if op == token.SHL {
		return ts.Bin(OpShl, a, c)
	}
	if signed {
		return ts.Bin(OpAShr, a, c)
	}
	return ts.Bin(OpLShr, a, c)
}

// equals gives x == y for values of static type t.
func (ip *Interp) equals(t types.Type, x, y Value) *Term {
	ts := ip.ts
	switch x := x.(type) {
	case *Term:
		yt, ok := y.(*Term)
		if !ok {
			panic(fmt.Sprintf("equals: %T vs %T", x, y))
		}
		if _, _, _, isFloat := basicInfo(t); isFloat && x.w == yt.w && x.w >= 32 {
			if _, ok := t.Underlying().(*types.Basic); ok {
				return ts.FCmp(OpFEq, x, yt)
			}
		}
		return ts.Eq(x, yt)
	case string, *SymStr:
		return ip.strEq(x, y)
	case *Value:
		return Bool(x == y.(*Value))
	case Iface:
		yi := y.(Iface)
		if x.t == nil || yi.t == nil {
			return Bool(x.t == nil && yi.t == nil)
		}
		if !types.Identical(x.t, yi.t) {
			return tFalse
		}
		if x.t == runtimeErrorType {
			return Bool(x.v.(runtimeError) == yi.v.(runtimeError))
		}
		return ip.equals(x.t, x.v, yi.v)
	case Struct:
		ys := y.(Struct)
		st := t.Underlying().(*types.Struct)
		r := tTrue
		for i := range x {
			if st.Field(i).Name() == "_" {
				continue
			}
			r = ts.BAnd(r, ip.equals(st.Field(i).Type(), x[i], ys[i]))
		}
		return r
	case Array:
		ya := y.(Array)
		et := t.Underlying().(*types.Array).Elem()
		r := tTrue
		for i := range x {
			r = ts.BAnd(r, ip.equals(et, x[i], ya[i]))
		}
		return r
	case Slice:
		ys := y.(Slice)
		if x.nonNil && ys.nonNil {
			panic("comparison of two non-nil slices")
		}
		return Bool(!x.nonNil && !ys.nonNil)
	case *MapV:
		ym := y.(*MapV)
		return Bool(x == ym)
	case *ChanV:
		return Bool(x == y.(*ChanV))
	case *ssa.Function:
		yf, ok := y.(*ssa.Function)
		return Bool(ok && x == yf)
	case *Closure:
		yf, ok := y.(*ssa.Function)
		if ok && yf == nil {
			return tFalse
		}
		return Bool(x == y)
	case *NativeObj:
		yn, ok := y.(*NativeObj)
		return Bool(ok && x == yn)
	case runtimeError:
		return Bool(x == y.(runtimeError))
	case nil:
		return Bool(y == nil)
	}
	panic(fmt.Sprintf("equals: unhandled %T", x))
}

// ---- conversions ----

func (ip *Interp) conv(dst, src types.Type, x Value) Value {
	ts := ip.ts
	ud, us := dst.Underlying(), src.Underlying()
	switch ud := ud.(type) {
	case *types.Pointer, *types.Signature, *types.Interface, *types.Map, *types.Chan, *types.Struct, *types.Array:
		if b, ok := us.(*types.Basic); ok && b.Kind() == types.UnsafePointer {
			ip.ex.endPath("unsupported", "conversion from unsafe.Pointer")
		}
		return x
	case *types.Slice:
		if isString(src) {
			b := ip.strBytes(x)
			if eb, ok := ud.Elem().Underlying().(*types.Basic); ok && eb.Kind() == types.Int32 {
				// []rune(s)
				var out []Value
				for i := 0; i < len(b); {
					r, w := ip.decodeRune(b, i)
					out = append(out, r)
					i += w
				}
				return Slice{s: out, nonNil: true}
			}
			out := make([]Value, len(b))
			for i, t := range b {
				out[i] = t
			}
			ip.noteAllocConst("string-to-bytes", len(b))
			return Slice{s: out, nonNil: true}
		}
		return x
	case *types.Basic:
		if ud.Kind() == types.UnsafePointer {
			ip.ex.endPath("unsupported", "conversion to unsafe.Pointer")
		}
		if ud.Info()&types.IsString != 0 {
			switch us := us.(type) {
			case *types.Basic:
				if us.Info()&types.IsString != 0 {
					return x
				}
				if us.Info()&types.IsInteger != 0 {
					// string(rune)
					t := asTerm(x)
					_, signed, _, _ := basicInfo(us)
					var r *Term
					if t.w >= 32 {
						// out-of-range values (incl. negative) become RuneError
						r32 := ts.Extract(t, 31, 0)
						if t.w > 32 {
							fits := ts.Eq(ts.ZExt(r32, int(t.w)), t)
							if !ip.ex.Branch(fits) {
								return "�"
							}
						}
						r = r32
					} else if signed {
						r = ts.SExt(t, 32)
					} else {
						r = ts.ZExt(t, 32)
					}
					b := ip.encodeRune(r)
					ip.noteAllocConst("rune-to-string", len(b))
					return mkStr(b)
				}
			case *types.Slice:
				sl := x.(Slice)
				eb := us.Elem().Underlying().(*types.Basic)
				if eb.Kind() == types.Int32 {
					var out []*Term
					for _, r := range sl.s {
						out = append(out, ip.encodeRune(asTerm(r))...)
					}
					ip.noteAllocConst("runes-to-string", len(out))
					return mkStr(out)
				}
				out := make([]*Term, len(sl.s))
				for i, b := range sl.s {
					out[i] = asTerm(b)
				}
				ip.noteAllocConst("bytes-to-string", len(out))
				return mkStr(out)
			}
			panic(fmt.Sprintf("conv to string from %s", src))
		}
		dw, _, dInt, dFloat := basicInfo(ud)
		sw, sSigned, sInt, sFloat := basicInfo(us)
		t := asTerm(x)
		switch {
		case dInt && sInt:
			if dw <= sw {
				return ts.Extract(t, dw-1, 0)
			}
			if sSigned {
				return ts.SExt(t, dw)
			}
			return ts.ZExt(t, dw)
		case dFloat && sInt:
			return ts.IToF(t, sSigned, dw)
		case dFloat && sFloat:
			if dw == sw {
				return t
			}
			if dw == 32 {
				return ts.F64to32(t)
			}
			return ts.F32to64(t)
		case dInt && sFloat:
			if t.IsConst() {
				f := fval(t.k, t.w)
				_, dSigned, _, _ := basicInfo(ud)
				if dSigned {
					return Const(dw, uint64(int64(f)))
				}
				return Const(dw, uint64(f))
			}
			// in range: truncation; out of range (or NaN) the result is implementation-specific
			_, dSigned, _, _ := basicInfo(ud)
			var lo, hi float64
			if dSigned {
				lo, hi = -math.Ldexp(1, dw-1), math.Ldexp(1, dw-1)
			} else {
				lo, hi = 0, math.Ldexp(1, dw)
			}
			tr := ts.FRound(t, 0)
			cLo, cHi := Const(int(t.w), fbits(lo, t.w)), Const(int(t.w), fbits(hi, t.w))
			inRange := ts.BAnd(ts.FCmp(OpFLe, cLo, tr), ts.FCmp(OpFLt, tr, cHi))
			if !ip.ex.Branch(inRange) {
				ip.ex.endPath("unsupported", "float to integer conversion of a symbolic value outside the integer's range")
			}
			return ts.FToI(t, dw, dSigned)
		case isBool(ud) && isBool(us):
			return t
		}
	}
	panic(fmt.Sprintf("unsupported conversion %s -> %s", src, dst))
}

// ---- slices ----

func (ip *Interp) sliceOp(instr *ssa.Slice, x, lo, hi, max Value) Value {
	var Len, Cap int
	var backing []Value
	var strB []*Term
	isStr := false
	switch x := x.(type) {
	case string:
		isStr = true
		if lo == nil || asTerm(lo).IsConst() {
			if hi == nil || asTerm(hi).IsConst() {
				l, h := int64(0), int64(len(x))
				if lo != nil {
					l = asTerm(lo).ConstInt()
				}
				if hi != nil {
					h = asTerm(hi).ConstInt()
				}
				if l < 0 || h < l || h > int64(len(x)) {
					ip.throw(fmt.Sprintf("slice bounds out of range [%d:%d] with length %d", l, h, len(x)))
				}
				return x[l:h]
			}
		}
		strB = constBytes(x)
		Len, Cap = len(strB), len(strB)
	case *SymStr:
		isStr = true
		strB = ip.strBytes(x)
		Len, Cap = len(strB), len(strB)
	case Slice:
		backing = x.s
		Len, Cap = len(x.s), cap(x.s)
		if !x.nonNil {
			backing = nil
		}
	case *Value:
		if x == nil {
			ip.throw("invalid memory address or nil pointer dereference")
		}
		a := (*x).(Array)
		backing = []Value(a)
		Len, Cap = len(a), len(a)
	default:
		panic(fmt.Sprintf("slice: unexpected X type: %T", x))
	}
	ts := ip.ts
	lt := Const(64, 0)
	if lo != nil {
		lt = asTerm(lo)
	}
	ht := Const(64, uint64(Len))
	if hi != nil {
		ht = asTerm(hi)
	}
	mt := Const(64, uint64(Cap))
	if max != nil {
		mt = asTerm(max)
	}
	for _, p := range []**Term{&lt, &ht, &mt} {
		if (*p).w != 64 {
			*p = ts.SExt(*p, 64) // index operands narrower than int: widen (unsigned types are rare here)
		}
	}
	// validity: 0 <= lo <= hi <= max <= cap   (unsigned compare catches negatives)
	ok := ts.BAnd(ts.Cmp(OpUle, lt, ht), ts.BAnd(ts.Cmp(OpUle, ht, mt), ts.Cmp(OpUle, mt, Const(64, uint64(Cap)))))
	if !ip.ex.Branch(ok) {
		ip.throw(fmt.Sprintf("slice bounds out of range [symbolic] with capacity %d", Cap))
	}
	l := int(ip.ex.Concretize(lt, "slice low bound"))
	h := int(ip.ex.Concretize(ht, "slice high bound"))
	m := int(ip.ex.Concretize(mt, "slice max bound"))
	if isStr {
		return mkStr(strB[l:h])
	}
	_, wasSlice := x.(Slice)
	if backing == nil && wasSlice {
		return Slice{}
	}
	return Slice{s: backing[l:h:m], nonNil: true}
}

const maxAllocBytes = 1 << 47

func (ip *Interp) elemSize(t types.Type) int64 {
	return ip.sizes.Sizeof(t)
}

func (ip *Interp) makeSlice(instr *ssa.MakeSlice, lenV, capV Value) Value {
	ts := ip.ts
	tElt := instr.Type().Underlying().(*types.Slice).Elem()
	esz := ip.elemSize(tElt)
	lt, ct := asTerm(lenV), asTerm(capV)
	if lt.w != 64 {
		lt = ts.SExt(lt, 64)
	}
	if ct.w != 64 {
		ct = ts.SExt(ct, 64)
	}
	site := ip.prog.Fset.Position(instr.Pos()).String()
	if !lt.IsConst() || !ct.IsConst() {
		lim := uint64(maxAllocBytes)
		if esz > 0 {
			lim = uint64(maxAllocBytes / esz)
		}
		okLen := ts.Cmp(OpUle, lt, Const(64, lim))
		if !ip.ex.Branch(okLen) {
			ip.throw("makeslice: len out of range")
		}
		okCap := ts.BAnd(ts.Cmp(OpUle, ct, Const(64, lim)), ts.Cmp(OpUle, lt, ct))
		if !ip.ex.Branch(okCap) {
			ip.throw("makeslice: cap out of range")
		}
		ip.noteAlloc("make@"+site, ts.Bin(OpMul, ct, Const(64, uint64(max(esz, 1)))))
	}
	n := ip.concInt(lt, "make length")
	c := ip.concInt(ct, "make capacity")
	if n < 0 || uint64(n)*uint64(max(esz, 1)) > maxAllocBytes {
		ip.throw("makeslice: len out of range")
	}
	if c < n || uint64(c)*uint64(max(esz, 1)) > maxAllocBytes {
		ip.throw("makeslice: cap out of range")
	}
	if c > 1<<25 {
		ip.ex.endPath("unsupported", fmt.Sprintf("make of %d elements is beyond the engine's materialisation limit", c))
	}
	if lt.IsConst() && ct.IsConst() {
		ip.noteAllocConst("make@"+site, int(c*max(esz, 1)))
	}
	s := make([]Value, c)
	z := zero(tElt)
	_, agg := z.(Struct)
	_, agg2 := z.(Array)
	for i := range s {
		if agg || agg2 {
			s[i] = zero(tElt)
		} else {
			s[i] = z
		}
	}
	ip.tick(c / 8)
	ip.noteAllocCells(s...)
	return Slice{s: s[:n], nonNil: true}
}

func growProbe[T any](oldCap, newLen int) int {
	s := make([]T, oldCap, oldCap)
	s = append(s, make([]T, newLen-oldCap)...)
	return cap(s)
}

type growKey struct {
	oldCap, newLen int
	size           int64
	ptr            bool
}

var growCache = map[growKey]int{}

// hostGrowCap asks the host runtime what capacity append would choose.
func hostGrowCap(oldCap, newLen int, size int64, hasPtr bool) int {
	if newLen > 1<<22 {
		// beyond the probe limit: the runtime's 1.25x rule without size-class rounding
		c := oldCap + (oldCap+768)/4
		if c < newLen {
			c = newLen
		}
		return c
	}
	var c int
	switch {
	case size == 1:
		c = growProbe[uint8](oldCap, newLen)
	case size == 2:
		c = growProbe[uint16](oldCap, newLen)
	case size == 4:
		c = growProbe[uint32](oldCap, newLen)
	case size == 8 && !hasPtr:
		c = growProbe[uint64](oldCap, newLen)
	case size == 8:
		c = growProbe[*byte](oldCap, newLen)
	case size == 16 && !hasPtr:
		c = growProbe[[2]uint64](oldCap, newLen)
	case size == 16:
		c = growProbe[[2]unsafe.Pointer](oldCap, newLen)
	case size == 24 && !hasPtr:
		c = growProbe[[3]uint64](oldCap, newLen)
	case size == 24:
		c = growProbe[[3]unsafe.Pointer](oldCap, newLen)
	case size == 32 && !hasPtr:
		c = growProbe[[4]uint64](oldCap, newLen)
	case size == 32:
		c = growProbe[[4]unsafe.Pointer](oldCap, newLen)
	case size == 40:
		c = growProbe[[5]unsafe.Pointer](oldCap, newLen)
	case size == 48:
		c = growProbe[[6]unsafe.Pointer](oldCap, newLen)
	case size == 56:
		c = growProbe[[7]unsafe.Pointer](oldCap, newLen)
	case size == 64:
		c = growProbe[[8]unsafe.Pointer](oldCap, newLen)
	default:
		// generic doubling rule without size-class rounding
		c = oldCap * 2
		if c < newLen {
			c = newLen
		}
	}
	return c
}

func hasPointers(t types.Type) bool {
	switch u := t.Underlying().(type) {
	case *types.Basic:
		return u.Info()&types.IsString != 0 || u.Kind() == types.UnsafePointer
	case *types.Array:
		return hasPointers(u.Elem())
	case *types.Struct:
		for i := 0; i < u.NumFields(); i++ {
			if hasPointers(u.Field(i).Type()) {
				return true
			}
		}
		return false
	}
	return true
}

func (ip *Interp) appendSlice(st types.Type, s Slice, add []Value) Slice {
	if len(add) == 0 {
		return s
	}
	tElt := st.Underlying().(*types.Slice).Elem()
	n := len(s.s) + len(add)
	if n <= cap(s.s) {
		// in place: writes into the shared backing array (memmove semantics: the source
		// may overlap the destination, so it is snapshotted first)
		ns := s.s[:n]
		add = append([]Value(nil), add...)
		for i, v := range add {
			if ip.monitorOn {
				ip.noteWrite(&ns[len(s.s)+i], nil)
			}
			ns[len(s.s)+i] = copyVal(v)
		}
		return Slice{s: ns, nonNil: true}
	}
	esz := ip.elemSize(tElt)
	key := growKey{cap(s.s), n, esz, hasPointers(tElt)}
	growCacheMu.Lock()
	nc, ok := growCache[key]
	growCacheMu.Unlock()
	if !ok {
		nc = hostGrowCap(key.oldCap, key.newLen, key.size, key.ptr)
		growCacheMu.Lock()
		growCache[key] = nc
		growCacheMu.Unlock()
	}
	ns := make([]Value, n, nc)
	copy(ns, s.s)
	for i, v := range add {
		ns[len(s.s)+i] = copyVal(v)
	}
	full := ns[:nc]
	for i := n; i < nc; i++ {
		full[i] = zero(tElt)
	}
	ip.noteAllocConst("append-grow", int(int64(nc)*max(esz, 1)))
	ip.noteAllocCells(full...)
	ip.tick(int64(nc) / 8)
	return Slice{s: ns, nonNil: true}
}

// ---- maps ----

func (ip *Interp) mapFind(m *MapV, key Value) *mapEntry {
	if m == nil {
		return nil
	}
	if s, ok := idxKey(key); ok && m.nonStr == 0 && !isInterfaceType(m.kt) {
		if _, _, _, isFloat := basicInfo(m.kt); !isFloat {
			return m.sidx[s] // all keys are concrete strings / constant integers: equality is decided without the solver
		}
	}
	for _, e := range m.entries {
		if ip.ex.Branch(ip.equals(m.kt, e.k, key)) {
			return e
		}
	}
	return nil
}

func isInterfaceType(t types.Type) bool {
	_, ok := t.Underlying().(*types.Interface)
	return ok
}

func (ip *Interp) mapSet(m *MapV, key, v Value) {
	if e := ip.mapFind(m, key); e != nil {
		if ip.monitorOn {
			ip.noteWrite(&e.v, nil)
		}
		e.v = copyVal(v)
		return
	}
	e := &mapEntry{k: copyVal(key), v: copyVal(v)}
	if ip.monitorOn {
		ip.noteMapGrow(m, e)
	}
	m.add(e)
}

func (ip *Interp) lookup(instr *ssa.Lookup, x, idx Value) Value {
	switch x := x.(type) {
	case *MapV:
		var v Value
		ok := false
		if e := ip.mapFind(x, idx); e != nil {
			v, ok = copyVal(e.v), true
		} else {
			v = zero(instr.X.Type().Underlying().(*types.Map).Elem())
		}
		if instr.CommaOk {
			return Tuple{v, Bool(ok)}
		}
		return v
	case string, *SymStr:
		b := ip.strBytes(x)
		i := ip.indexCheck(idx, instr.Index.Type(), len(b))
		return b[i]
	}
	panic(fmt.Sprintf("unexpected x type in Lookup: %T", x))
}

// ---- type assertions ----

func (ip *Interp) typeAssert(instr *ssa.TypeAssert, itf Iface) Value {
	var v Value
	err := ""
	if itf.t == nil {
		err = "interface conversion: interface is nil"
	} else if idst, ok := instr.AssertedType.Underlying().(*types.Interface); ok {
		v = itf
		if itf.t == runtimeErrorType {
			// runtime errors implement error (and runtime.Error)
			for i := 0; i < idst.NumMethods(); i++ {
				if n := idst.Method(i).Name(); n != "Error" && n != "RuntimeError" {
					err = "interface conversion: runtime error does not implement " + instr.AssertedType.String()
				}
			}
		} else if meth, _ := types.MissingMethod(itf.t, idst, true); meth != nil {
			err = "interface conversion: missing method " + meth.Name()
		}
	} else if itf.t == instr.AssertedType || types.Identical(itf.t, instr.AssertedType) {
		v = itf.v
	} else {
		err = "interface conversion: wrong dynamic type"
		if !instr.CommaOk {
			err = fmt.Sprintf("interface conversion: interface is %s, not %s", itf.t, instr.AssertedType)
		}
	}
	if err != "" {
		if !instr.CommaOk {
			panic(targetPanic{Iface{t: runtimeErrorType, v: runtimeError{err}}})
		}
		return Tuple{zero(instr.AssertedType), tFalse}
	}
	if instr.CommaOk {
		return Tuple{v, tTrue}
	}
	return v
}

// ---- range ----

func (ip *Interp) rangeIter(x Value, t types.Type) Value {
	switch x := x.(type) {
	case *MapV:
		it := &mapIter{m: x}
		if x != nil {
			it.keys = append(it.keys, x.entries...)
			if ip.mapOrder == 1 {
				for i, j := 0, len(it.keys)-1; i < j; i, j = i+1, j-1 {
					it.keys[i], it.keys[j] = it.keys[j], it.keys[i]
				}
			} else if ip.mapOrder >= 2 && len(it.keys) > 1 {
				// rotate by mapOrder-1
				k := (ip.mapOrder - 1) % len(it.keys)
				it.keys = append(it.keys[k:], it.keys[:k]...)
			}
		}
		return it
	case string:
		return &strIter{ip: ip, s: x, cs: x, concrete: true}
	case *SymStr:
		return &strIter{ip: ip, s: x, b: ip.strBytes(x)}
	}
	panic(fmt.Sprintf("cannot range over %T", x))
}

func (ip *Interp) iterNext(it Value) Value {
	switch it := it.(type) {
	case *mapIter:
		for it.i < len(it.keys) {
			e := it.keys[it.i]
			it.i++
			// skip entries deleted during iteration
			live := false
			for _, c := range it.m.entries {
				if c == e {
					live = true
					break
				}
			}
			if !live {
				continue
			}
			return Tuple{tTrue, copyVal(e.k), copyVal(e.v)}
		}
		return Tuple{tFalse, nil, nil}
	case *strIter:
		if it.concrete {
			if it.i >= len(it.cs) {
				return Tuple{tFalse, Const(64, 0), Const(32, 0)}
			}
			r, w := utf8.DecodeRuneInString(it.cs[it.i:])
			idx := it.i
			it.i += w
			return Tuple{tTrue, Const(64, uint64(idx)), Const(32, uint64(r))}
		}
		b := it.b
		if it.i >= len(b) {
			return Tuple{tFalse, Const(64, 0), Const(32, 0)}
		}
		r, w := ip.decodeRune(b, it.i)
		idx := it.i
		it.i += w
		return Tuple{tTrue, Const(64, uint64(idx)), r}
	}
	panic(fmt.Sprintf("iterNext on %T", it))
}

// ---- builtins ----

func (ip *Interp) callBuiltin(caller *frame, pos token.Pos, fn *ssa.Builtin, args []Value) Value {
	switch fn.Name() {
	case "append":
		sig := fn.Type().(*types.Signature)
		st := sig.Params().At(0).Type()
		s := args[0].(Slice)
		if len(args) == 1 {
			return s
		}
		var add []Value
		switch a := args[1].(type) {
		case string, *SymStr:
			for _, b := range ip.strBytes(a) {
				add = append(add, b)
			}
		case Slice:
			add = a.s
		}
		if len(add) == 0 {
			return s
		}
		return ip.appendSlice(st, s, add)
	case "copy":
		dst := args[0].(Slice)
		var src []Value
		switch a := args[1].(type) {
		case string, *SymStr:
			for _, b := range ip.strBytes(a) {
				src = append(src, b)
			}
		case Slice:
			src = a.s
		}
		n := min(len(dst.s), len(src))
		tmp := make([]Value, n)
		for i := 0; i < n; i++ {
			tmp[i] = copyVal(src[i])
		}
		for i := 0; i < n; i++ {
			if ip.monitorOn {
				ip.noteWrite(&dst.s[i], nil)
			}
			dst.s[i] = tmp[i]
		}
		return Const(64, uint64(n))
	case "close":
		ch := args[0].(*ChanV)
		if ch == nil {
			panic(targetPanic{Iface{t: runtimeErrorType, v: runtimeError{"close of nil channel"}}})
		}
		if ch.closed {
			panic(targetPanic{Iface{t: runtimeErrorType, v: runtimeError{"close of closed channel"}}})
		}
		ch.closed = true
		return nil
	case "delete":
		m := args[0].(*MapV)
		if m == nil {
			return nil
		}
		if e := ip.mapFind(m, args[1]); e != nil {
			for i, c := range m.entries {
				if c == e {
					if ip.monitorOn {
						ip.noteMapGrow(m, e)
					}
					m.removeAt(i)
					break
				}
			}
		}
		return nil
	case "print", "println":
		return nil
	case "len":
		switch x := args[0].(type) {
		case string:
			return Const(64, uint64(len(x)))
		case *SymStr:
			return Const(64, uint64(ip.strLen(x)))
		case Array:
			return Const(64, uint64(len(x)))
		case *Value:
			return Const(64, uint64(len((*x).(Array))))
		case Slice:
			return Const(64, uint64(len(x.s)))
		case *MapV:
			if x == nil {
				return Const(64, 0)
			}
			return Const(64, uint64(len(x.entries)))
		case *ChanV:
			if x == nil {
				return Const(64, 0)
			}
			return Const(64, uint64(len(x.buf)))
		}
		panic(fmt.Sprintf("len: illegal operand: %T", args[0]))
	case "cap":
		switch x := args[0].(type) {
		case Array:
			return Const(64, uint64(len(x)))
		case *Value:
			return Const(64, uint64(len((*x).(Array))))
		case Slice:
			return Const(64, uint64(cap(x.s)))
		case *ChanV:
			if x == nil {
				return Const(64, 0)
			}
			return Const(64, uint64(x.cap))
		}
		panic(fmt.Sprintf("cap: illegal operand: %T", args[0]))
	case "min", "max":
		sig := fn.Type().(*types.Signature)
		t := sig.Params().At(0).Type()
		r := args[0]
		for _, a := range args[1:] {
			var lt *Term
			if fn.Name() == "min" {
				lt = asTerm(ip.binop(token.LSS, t, a, r))
			} else {
				lt = asTerm(ip.binop(token.GTR, t, a, r))
			}
			if rt, ok := r.(*Term); ok {
				r = ip.ts.Ite(lt, asTerm(a), rt)
			} else if ip.ex.Branch(lt) {
				r = a
			}
		}
		return r
	case "panic":
		panic(targetPanic{args[0]})
	case "recover":
		return ip.doRecover(caller)
	case "ssa:wrapnilchk":
		recv := args[0]
		if p, ok := recv.(*Value); ok && p == nil {
			ip.throw("value method called using nil pointer")
		}
		return recv
	}
	panic("unknown built-in: " + fn.Name())
}
