package main

// Intrinsics of the harness runtime package zzverifrt (nondet / assume / assert).

import (
	"fmt"
	"go/types"
	"strings"
)

type intrinsic func(ip *Interp, fr *frame, args []Value) Value

var intrinsics = map[string]intrinsic{}

const rtPkg = "github.com/wolimst/lib-secs2-hsms-go/pkg/zzverifrt"

func regRT(name string, f intrinsic) { intrinsics[rtPkg+"."+name] = f }

func argName(ip *Interp, v Value) string {
	s, ok := v.(string)
	if !ok {
		ip.ex.endPath("harness-error", "nondet variable name must be concrete")
	}
	return s
}

func init() {
	mkInt := func(w int) intrinsic {
		return func(ip *Interp, fr *frame, args []Value) Value {
			return ip.ts.Var(argName(ip, args[0]), w)
		}
	}
	regRT("Byte", mkInt(8))
	regRT("Uint8", mkInt(8))
	regRT("Uint16", mkInt(16))
	regRT("Uint32", mkInt(32))
	regRT("Uint64", mkInt(64))
	regRT("Uint", mkInt(64))
	regRT("Int8", mkInt(8))
	regRT("Int16", mkInt(16))
	regRT("Int32", mkInt(32))
	regRT("Int64", mkInt(64))
	regRT("Int", mkInt(64))
	regRT("Float32", mkInt(32))
	regRT("Float64", mkInt(64))
	regRT("Bool", func(ip *Interp, fr *frame, args []Value) Value {
		v := ip.ts.Var(argName(ip, args[0]), 1)
		return ip.ts.Eq(v, Const(1, 1))
	})
	regRT("IntRange", func(ip *Interp, fr *frame, args []Value) Value {
		v := ip.ts.Var(argName(ip, args[0]), 64)
		lo, hi := asTerm(args[1]), asTerm(args[2])
		ip.ex.Assume(ip.ts.BAnd(ip.ts.Cmp(OpSle, lo, v), ip.ts.Cmp(OpSle, v, hi)))
		return v
	})
	regRT("Choice", func(ip *Interp, fr *frame, args []Value) Value {
		name := argName(ip, args[0])
		n := ip.concInt(args[1], "choice bound")
		if n <= 0 {
			ip.ex.endPath("harness-error", "Choice with n<=0")
		}
		if n > 65535 {
			ip.ex.endPath("harness-error", "Choice with n>65535")
		}
		cw := 8
		if n > 256 {
			cw = 16
		}
		v := ip.ts.Var(name, cw)
		if n < 1<<uint(cw) {
			ip.ex.Assume(ip.ts.Cmp(OpUlt, v, Const(cw, uint64(n))))
		}
		if f, ok := ip.ex.params["force."+name]; ok {
			// job-level sharding: this choice is fixed by the job table
			ip.ex.Assume(ip.ts.Eq(v, Const(cw, uint64(f))))
		}
		x := ip.ex.Concretize(v, "choice "+name)
		return Const(64, x)
	})
	regRT("Bytes", func(ip *Interp, fr *frame, args []Value) Value {
		name := argName(ip, args[0])
		n := int(ip.concInt(args[1], "Bytes length"))
		s := make([]Value, n)
		for i := range s {
			s[i] = ip.ts.Var(fmt.Sprintf("%s_%d", name, i), 8)
		}
		return Slice{s: s, nonNil: true}
	})
	regRT("String", func(ip *Interp, fr *frame, args []Value) Value {
		name := argName(ip, args[0])
		n := int(ip.concInt(args[1], "String length"))
		b := make([]*Term, n)
		for i := range b {
			b[i] = ip.ts.Var(fmt.Sprintf("%s_%d", name, i), 8)
		}
		return mkStr(b)
	})
	regRT("Param", func(ip *Interp, fr *frame, args []Value) Value {
		name := argName(ip, args[0])
		v, ok := ip.ex.params[name]
		if !ok {
			ip.ex.endPath("harness-error", "missing job parameter "+name)
		}
		return Const(64, uint64(v))
	})
	regRT("ParamOr", func(ip *Interp, fr *frame, args []Value) Value {
		if v, ok := ip.ex.params[argName(ip, args[0])]; ok {
			return Const(64, uint64(v))
		}
		return args[1]
	})
	regRT("Assume", func(ip *Interp, fr *frame, args []Value) Value {
		ip.ex.Assume(asTerm(args[0]))
		return nil
	})
	regRT("Assert", func(ip *Interp, fr *frame, args []Value) Value {
		ip.ex.Assert(asTerm(args[0]), argName(ip, args[1]))
		return nil
	})
	regRT("Reach", func(ip *Interp, fr *frame, args []Value) Value {
		ip.ex.Reach(argName(ip, args[0]))
		return nil
	})
	regRT("Cut", func(ip *Interp, fr *frame, args []Value) Value {
		ip.ex.endPath("cut", argName(ip, args[0]))
		return nil
	})
	regRT("Observe", func(ip *Interp, fr *frame, args []Value) Value {
		if len(ip.ex.observed) < 32 {
			ip.ex.observed = append(ip.ex.observed, argName(ip, args[0])+"="+ip.show(args[1]))
			ip.ex.obsVals = append(ip.ex.obsVals, obsRec{argName(ip, args[0]), args[1]})
		}
		return nil
	})
	regRT("Concretize", func(ip *Interp, fr *frame, args []Value) Value {
		t := asTerm(args[0])
		return Const(int(t.w), ip.ex.Concretize(t, "rt.Concretize"))
	})
	regRT("IsSymbolic", func(ip *Interp, fr *frame, args []Value) Value { return tTrue })
	regRT("AllocBegin", func(ip *Interp, fr *frame, args []Value) Value {
		// AllocBegin(engineThresholdBytes int, nativeBoundBytes int, label string)
		ip.alloc = allocMon{active: true, threshold: asTerm(args[0]), label: argName(ip, args[2]), total: Const(64, 0)}
		return nil
	})
	regRT("AllocEnd", func(ip *Interp, fr *frame, args []Value) Value {
		ip.alloc.active = false
		return nil
	})
	regRT("AllocTotal", func(ip *Interp, fr *frame, args []Value) Value {
		// bytes requested by variable-size allocation requests since AllocBegin (engine model)
		return ip.alloc.total
	})
	regRT("Epoch", func(ip *Interp, fr *frame, args []Value) Value {
		var roots []Value
		if len(args) > 0 {
			if s, ok := args[0].(Slice); ok {
				roots = append(roots, s.s...)
			}
		}
		ip.epoch(roots)
		return nil
	})
	regRT("EpochEnd", func(ip *Interp, fr *frame, args []Value) Value {
		ip.monitorOn = false
		n := len(ip.sharedWrites)
		for i, w := range ip.sharedWrites {
			if i < 4 && len(ip.ex.observed) < 32 {
				ip.ex.observed = append(ip.ex.observed, "shared-write: "+w)
			}
		}
		return Const(64, uint64(n))
	})
	regRT("MapOrder", func(ip *Interp, fr *frame, args []Value) Value {
		ip.mapOrder = int(ip.concInt(args[0], "map order"))
		return nil
	})
	// StrEq / BytesEq give equality as a single symbolic boolean (no forks).
	regRT("StrEq", func(ip *Interp, fr *frame, args []Value) Value { return ip.strEq(args[0], args[1]) })
	regRT("BytesEq", func(ip *Interp, fr *frame, args []Value) Value {
		a, b := args[0].(Slice), args[1].(Slice)
		if len(a.s) != len(b.s) {
			return tFalse
		}
		r := tTrue
		for i := range a.s {
			r = ip.ts.BAnd(r, ip.ts.Eq(asTerm(a.s[i]), asTerm(b.s[i])))
		}
		return r
	})
	regRT("StrsEq", func(ip *Interp, fr *frame, args []Value) Value {
		a, b := args[0].(Slice), args[1].(Slice)
		if len(a.s) != len(b.s) {
			return tFalse
		}
		r := tTrue
		for i := range a.s {
			r = ip.ts.BAnd(r, ip.strEq(a.s[i], b.s[i]))
		}
		return r
	})
	regRT("And", func(ip *Interp, fr *frame, args []Value) Value { return ip.ts.BAnd(asTerm(args[0]), asTerm(args[1])) })
	regRT("Or", func(ip *Interp, fr *frame, args []Value) Value { return ip.ts.BOr(asTerm(args[0]), asTerm(args[1])) })
	regRT("Implies", func(ip *Interp, fr *frame, args []Value) Value {
		return ip.ts.BOr(ip.ts.BNot(asTerm(args[0])), asTerm(args[1]))
	})
	regRT("Ite", func(ip *Interp, fr *frame, args []Value) Value {
		return ip.ts.Ite(asTerm(args[0]), asTerm(args[1]), asTerm(args[2]))
	})
	regRT("ParseLnCol", func(ip *Interp, fr *frame, args []Value) Value {
		// "Ln <line>, Col <col>: ..." -> (line, col, ok) without forcing lazy number segments
		line, col, ok, _ := ip.parseDiag(args[0])
		return Tuple{line, col, Bool(ok)}
	})
	regRT("DiagText", func(ip *Interp, fr *frame, args []Value) Value {
		// the text behind "Ln x, Col y: " ("" when the prefix is malformed)
		_, _, ok, rest := ip.parseDiag(args[0])
		if !ok {
			return ""
		}
		return rest
	})
	regRT("Concurrently", func(ip *Interp, fr *frame, args []Value) Value {
		ip.call(fr, 0, args[1], nil)
		return nil
	})
	regRT("Iterations", func(ip *Interp, fr *frame, args []Value) Value { return Const(64, 1) })
	regRT("HasPrefixC", func(ip *Interp, fr *frame, args []Value) Value {
		// prefix test that tolerates lazy/opaque tails: compares only leading bytes
		p := argName(ip, args[1])
		return ip.hasConcretePrefix(args[0], p)
	})
}

// hasConcretePrefix reports (as a term) whether string v starts with the concrete p,
// looking only at as many leading bytes as needed.
func (ip *Interp) hasConcretePrefix(v Value, p string) *Term {
	if s, ok := v.(string); ok {
		return Bool(strings.HasPrefix(s, p))
	}
	var lead []*Term
	for _, g := range v.(*SymStr).segs {
		if len(lead) >= len(p) {
			break
		}
		switch g.kind {
		case segBytes:
			lead = append(lead, g.b...)
		case segNum:
			lead = append(lead, ip.materialise(g)...)
		default:
			if len(lead) < len(p) {
				ip.ex.endPath("unsupported", "prefix test reaches opaque segment")
			}
		}
	}
	if len(lead) < len(p) {
		return tFalse
	}
	r := tTrue
	for i := 0; i < len(p); i++ {
		r = ip.ts.BAnd(r, ip.ts.Eq(lead[i], byteConst[p[i]]))
	}
	return r
}

var _ = types.Typ

func (ip *Interp) parseDiag(v Value) (line, col *Term, ok bool, rest Value) {
	zero := Const(64, 0)
	rest = ""
	type atom struct {
		b *Term
		g *strSeg
	}
	var atoms []atom
	for _, g := range segsOf(v) {
		switch {
		case g.kind == segBytes:
			for _, b := range g.b {
				atoms = append(atoms, atom{b: b})
			}
		case g.kind == segNum && g.mat != nil:
			for _, b := range g.mat {
				atoms = append(atoms, atom{b: b})
			}
		default:
			atoms = append(atoms, atom{g: g})
		}
	}
	i := 0
	lit := func(s string) bool {
		for j := 0; j < len(s); j++ {
			if i >= len(atoms) || atoms[i].b == nil || !atoms[i].b.IsConst() || byte(atoms[i].b.k) != s[j] {
				return false
			}
			i++
		}
		return true
	}
	num := func() (*Term, bool) {
		if i < len(atoms) && atoms[i].g != nil && atoms[i].g.kind == segNum && atoms[i].g.base == 10 {
			t := atoms[i].g.num
			i++
			if t.w < 64 {
				t = ip.ts.SExt(t, 64)
			}
			return t, true
		}
		n, digits := uint64(0), 0
		for i < len(atoms) && atoms[i].b != nil && atoms[i].b.IsConst() && atoms[i].b.k >= '0' && atoms[i].b.k <= '9' && digits < 18 {
			n = n*10 + (atoms[i].b.k - '0')
			i++
			digits++
		}
		return Const(64, n), digits > 0
	}
	if !lit("Ln ") {
		return zero, zero, false, rest
	}
	l, ok1 := num()
	if !ok1 || !lit(", Col ") {
		return zero, zero, false, rest
	}
	c, ok2 := num()
	if !ok2 || !lit(": ") {
		return zero, zero, false, rest
	}
	// remainder: atoms[i:] back into segments
	var segs []*strSeg
	var run []*Term
	flush := func() {
		if len(run) > 0 {
			segs = append(segs, &strSeg{kind: segBytes, b: run})
			run = nil
		}
	}
	for _, a := range atoms[i:] {
		if a.b != nil {
			run = append(run, a.b)
		} else {
			flush()
			segs = append(segs, a.g)
		}
	}
	flush()
	return l, c, true, normStr(segs)
}
