package main

// Models of the standard-library entry points the repository reaches.  Policy: concrete
// arguments => the real function is called natively; symbolic arguments => a model
// written against the engine's Branch primitive (documented per function).

import (
	"fmt"
	"go/token"
	"go/types"
	"math"
	"regexp"
	"regexp/syntax"
	"strconv"
	"strings"
	"sync"
	"unicode"
	"unicode/utf8"

	"golang.org/x/tools/go/ssa"
)

func reg(name string, f intrinsic) { intrinsics[name] = f }

func init() {
	// ---- math ----
	ident := func(ip *Interp, fr *frame, args []Value) Value { return args[0] }
	reg("math.Float32bits", ident)
	reg("math.Float32frombits", ident)
	reg("math.Float64bits", ident)
	reg("math.Float64frombits", ident)
	reg("math.IsNaN", func(ip *Interp, fr *frame, args []Value) Value { return ip.ts.FIsNaN(asTerm(args[0])) })
	reg("math.IsInf", func(ip *Interp, fr *frame, args []Value) Value {
		f, sign := asTerm(args[0]), asTerm(args[1])
		ts := ip.ts
		inf := ts.FIsInf(f)
		neg := ts.Eq(ts.Extract(f, 63, 63), Const(1, 1))
		pos := ts.BNot(neg)
		sgt := ts.Cmp(OpSlt, Const(64, 0), sign)
		slt := ts.Cmp(OpSlt, sign, Const(64, 0))
		// sign>0: +Inf; sign<0: -Inf; sign==0: either
		return ts.BAnd(inf, ts.BOr(ts.BAnd(ts.BNot(sgt), ts.BNot(slt)), ts.BOr(ts.BAnd(sgt, pos), ts.BAnd(slt, neg))))
	})
	for name, mode := range map[string]int{"Trunc": 0, "Floor": 1, "Ceil": 2} {
		mode := mode
		reg("math."+name, func(ip *Interp, fr *frame, args []Value) Value { return ip.ts.FRound(asTerm(args[0]), mode) })
	}
	reg("math.Abs", func(ip *Interp, fr *frame, args []Value) Value {
		return ip.ts.Bin(OpAnd, asTerm(args[0]), Const(64, math.MaxInt64))
	})

	// ---- errors ----
	reg("errors.New", func(ip *Interp, fr *frame, args []Value) Value {
		return ip.newError(args[0])
	})

	// ---- unicode ----
	// unicode.Is / In / IsOneOf over the package's own tables (read as native table handles)
	tabName := func(ip *Interp, v Value) string {
		if n, ok := v.(*NativeObj); ok && n != nil && n.kind == "rangetable" {
			return "table:" + n.obj.(string)
		}
		ip.ex.endPath("unsupported", "unicode table that is not one of package unicode's variables")
		return ""
	}
	reg("unicode.Is", func(ip *Interp, fr *frame, args []Value) Value {
		r := asTerm(args[1])
		name := tabName(ip, args[0])
		if r.IsConst() {
			return Bool(unicode.Is(hostRangeTable(strings.TrimPrefix(name, "table:")), rune(int32(r.k))))
		}
		return ip.runeClass(r, name)
	})
	inAny := func(ip *Interp, r *Term, tabs []Value) Value {
		res := tFalse
		for _, tv := range tabs {
			name := tabName(ip, tv)
			var c *Term
			if r.IsConst() {
				c = Bool(unicode.Is(hostRangeTable(strings.TrimPrefix(name, "table:")), rune(int32(r.k))))
			} else {
				c = ip.runeClass(r, name)
			}
			res = ip.ts.BOr(res, c)
		}
		return res
	}
	reg("unicode.In", func(ip *Interp, fr *frame, args []Value) Value { return inAny(ip, asTerm(args[0]), args[1].(Slice).s) })
	reg("unicode.IsOneOf", func(ip *Interp, fr *frame, args []Value) Value { return inAny(ip, asTerm(args[1]), args[0].(Slice).s) })
	reg("unicode.IsSpace", func(ip *Interp, fr *frame, args []Value) Value { return ip.runeClass(asTerm(args[0]), "space") })
	reg("unicode.IsLetter", func(ip *Interp, fr *frame, args []Value) Value { return ip.runeClass(asTerm(args[0]), "letter") })
	reg("unicode.IsDigit", func(ip *Interp, fr *frame, args []Value) Value { return ip.runeClass(asTerm(args[0]), "digit") })
	reg("unicode.IsUpper", func(ip *Interp, fr *frame, args []Value) Value { return ip.runeClass(asTerm(args[0]), "upper") })
	reg("unicode.IsLower", func(ip *Interp, fr *frame, args []Value) Value { return ip.runeClass(asTerm(args[0]), "lower") })

	// ---- unicode/utf8 ----
	reg("unicode/utf8.DecodeRuneInString", func(ip *Interp, fr *frame, args []Value) Value {
		if s, ok := args[0].(string); ok {
			r, w := utf8.DecodeRuneInString(s)
			return Tuple{Const(32, uint64(r)), Const(64, uint64(w))}
		}
		r, w := ip.decodeRune(ip.strBytes(args[0]), 0)
		return Tuple{r, Const(64, uint64(w))}
	})
	reg("unicode/utf8.RuneCountInString", func(ip *Interp, fr *frame, args []Value) Value {
		if s, ok := args[0].(string); ok {
			return Const(64, uint64(utf8.RuneCountInString(s)))
		}
		b := ip.strBytes(args[0])
		n := 0
		for i := 0; i < len(b); n++ {
			_, w := ip.decodeRune(b, i)
			i += w
		}
		return Const(64, uint64(n))
	})
	reg("unicode/utf8.RuneLen", func(ip *Interp, fr *frame, args []Value) Value {
		return Const(64, uint64(len(ip.encodeRune(asTerm(args[0])))))
	})
	reg("unicode/utf8.ValidString", func(ip *Interp, fr *frame, args []Value) Value {
		b := ip.strBytes(args[0])
		for i := 0; i < len(b); {
			r, w := ip.decodeRune(b, i)
			if w == 1 && ip.ex.Branch(ip.ts.Eq(r, Const(32, uint64(utf8.RuneError)))) {
				return tFalse
			}
			i += w
		}
		return tTrue
	})

	// ---- strings ----
	reg("internal/stringslite.Clone", ident)
	reg("strings.Clone", ident)
	reg("strings.Index", func(ip *Interp, fr *frame, args []Value) Value { return ip.strIndex(args[0], args[1], false) })
	reg("internal/stringslite.Index", func(ip *Interp, fr *frame, args []Value) Value { return ip.strIndex(args[0], args[1], false) })
	reg("strings.LastIndex", func(ip *Interp, fr *frame, args []Value) Value { return ip.strIndex(args[0], args[1], true) })
	reg("strings.Contains", func(ip *Interp, fr *frame, args []Value) Value {
		i := asTerm(ip.strIndex(args[0], args[1], false))
		return Bool(i.ConstInt() >= 0)
	})
	reg("strings.IndexByte", func(ip *Interp, fr *frame, args []Value) Value { return ip.indexByte(args[0], asTerm(args[1])) })
	reg("internal/bytealg.IndexByteString", func(ip *Interp, fr *frame, args []Value) Value { return ip.indexByte(args[0], asTerm(args[1])) })
	reg("internal/stringslite.IndexByte", func(ip *Interp, fr *frame, args []Value) Value { return ip.indexByte(args[0], asTerm(args[1])) })
	reg("strings.IndexAny", func(ip *Interp, fr *frame, args []Value) Value {
		chars, ok := args[1].(string)
		if s, ok2 := args[0].(string); ok && ok2 {
			return Const(64, uint64(int64(strings.IndexAny(s, chars))))
		}
		if !ok {
			ip.ex.endPath("unsupported", "strings.IndexAny with symbolic chars")
		}
		for _, c := range chars {
			if c >= 0x80 {
				ip.ex.endPath("unsupported", "strings.IndexAny with non-ASCII chars on symbolic string")
			}
		}
		b := ip.strBytes(args[0])
		for i, t := range b {
			hit := tFalse
			for j := 0; j < len(chars); j++ {
				hit = ip.ts.BOr(hit, ip.ts.Eq(t, byteConst[chars[j]]))
			}
			if ip.ex.Branch(hit) {
				return Const(64, uint64(i))
			}
		}
		return Const(64, ^uint64(0))
	})
	reg("strings.ContainsRune", func(ip *Interp, fr *frame, args []Value) Value {
		r := asTerm(args[1])
		if s, ok := args[0].(string); ok {
			if r.IsConst() {
				return Bool(strings.ContainsRune(s, rune(int32(r.k))))
			}
			hit := tFalse
			for _, c := range s {
				hit = ip.ts.BOr(hit, ip.ts.Eq(r, Const(32, uint64(c))))
			}
			return hit
		}
		ip.ex.endPath("unsupported", "strings.ContainsRune on symbolic string")
		return nil
	})
	reg("strings.Count", func(ip *Interp, fr *frame, args []Value) Value {
		if s, ok := args[0].(string); ok {
			if sub, ok := args[1].(string); ok {
				return Const(64, uint64(strings.Count(s, sub)))
			}
		}
		sub, ok := args[1].(string)
		if !ok || len(sub) != 1 {
			ip.ex.endPath("unsupported", "strings.Count with symbolic or multi-byte separator")
		}
		n := Const(64, 0)
		for _, t := range ip.strBytes(args[0]) {
			n = ip.ts.Bin(OpAdd, n, ip.ts.Ite(ip.ts.Eq(t, byteConst[sub[0]]), Const(64, 1), Const(64, 0)))
		}
		return n
	})
	reg("strings.ToUpper", func(ip *Interp, fr *frame, args []Value) Value { return ip.caseMap(args[0], true) })
	reg("strings.ToLower", func(ip *Interp, fr *frame, args []Value) Value { return ip.caseMap(args[0], false) })
	reg("strings.Repeat", func(ip *Interp, fr *frame, args []Value) Value {
		cnt := asTerm(args[1])
		ts := ip.ts
		l := ip.strLen(args[0])
		if !cnt.IsConst() {
			if ip.ex.Branch(ts.Cmp(OpSlt, cnt, Const(64, 0))) {
				panic(targetPanic{Iface{t: types.Typ[types.String], v: "strings: negative Repeat count"}})
			}
			if l > 0 {
				lim := uint64(math.MaxInt64) / uint64(l)
				if ip.ex.Branch(ts.Cmp(OpUlt, Const(64, lim), cnt)) {
					panic(targetPanic{Iface{t: types.Typ[types.String], v: "strings: Repeat output length overflow"}})
				}
				if ip.ex.Branch(ts.Cmp(OpUlt, Const(64, maxAllocBytes/uint64(l)), cnt)) {
					ip.throw("makeslice: len out of range") // recoverable out-of-range request
				}
			}
			ip.noteAlloc("strings.Repeat", ts.Bin(OpMul, cnt, Const(64, uint64(l))))
		}
		n := ip.concInt(cnt, "Repeat count")
		if n < 0 {
			panic(targetPanic{Iface{t: types.Typ[types.String], v: "strings: negative Repeat count"}})
		}
		if _, concrete := args[0].(string); n*int64(l) > 1<<22 && !(concrete && n*int64(l) <= 1<<25) {
			ip.ex.endPath("unsupported", "strings.Repeat result beyond the engine's materialisation limit")
		}
		if cnt.IsConst() {
			ip.noteAllocConst("strings.Repeat", int(n)*l)
		}
		if s, ok := args[0].(string); ok {
			return strings.Repeat(s, int(n))
		}
		var out Value = ""
		for i := int64(0); i < n; i++ {
			out = concatStr(out, args[0])
		}
		return out
	})
	reg("strings.Join", func(ip *Interp, fr *frame, args []Value) Value {
		el := args[0].(Slice)
		var out Value = ""
		for i, e := range el.s {
			if i > 0 {
				out = concatStr(out, args[1])
			}
			out = concatStr(out, e)
		}
		ip.noteAllocConst("strings.Join", ip.approxLen(out))
		return out
	})
	reg("strings.TrimSpace", func(ip *Interp, fr *frame, args []Value) Value {
		if s, ok := args[0].(string); ok {
			return strings.TrimSpace(s)
		}
		ip.ex.endPath("unsupported", "strings.TrimSpace on symbolic string")
		return nil
	})

	// strings.Builder: field 1 (buf) holds a string value so that lazy segments survive.
	sbGet := func(args []Value) (Struct, Value) {
		st := (*args[0].(*Value)).(Struct)
		if s, ok := st[1].(Slice); ok && !s.nonNil {
			return st, ""
		}
		return st, st[1]
	}
	sbAppend := func(ip *Interp, args []Value, add Value) {
		st, cur := sbGet(args)
		if ip.monitorOn {
			ip.noteWrite(&st[1], nil)
		}
		st[1] = concatStr(cur, add)
		ip.noteAllocConst("Builder", ip.approxLen(add))
	}
	reg("(*strings.Builder).WriteString", func(ip *Interp, fr *frame, args []Value) Value {
		sbAppend(ip, args, args[1])
		return Tuple{Const(64, uint64(ip.approxLen(args[1]))), Iface{}}
	})
	reg("(*strings.Builder).WriteByte", func(ip *Interp, fr *frame, args []Value) Value {
		sbAppend(ip, args, mkStr([]*Term{asTerm(args[1])}))
		return Iface{}
	})
	reg("(*strings.Builder).WriteRune", func(ip *Interp, fr *frame, args []Value) Value {
		b := ip.encodeRune(asTerm(args[1]))
		sbAppend(ip, args, mkStr(b))
		return Tuple{Const(64, uint64(len(b))), Iface{}}
	})
	reg("(*strings.Builder).String", func(ip *Interp, fr *frame, args []Value) Value {
		_, cur := sbGet(args)
		return cur
	})
	reg("(*strings.Builder).Len", func(ip *Interp, fr *frame, args []Value) Value {
		_, cur := sbGet(args)
		return Const(64, uint64(ip.strLen(cur)))
	})
	reg("(*strings.Builder).Cap", func(ip *Interp, fr *frame, args []Value) Value {
		// capacity is not tracked: the length is a lower bound (callers only grow again when it is 0)
		_, cur := sbGet(args)
		return Const(64, uint64(ip.strLen(cur)))
	})
	reg("(*strings.Builder).Reset", func(ip *Interp, fr *frame, args []Value) Value {
		st, _ := sbGet(args)
		st[1] = ""
		return nil
	})
	reg("(*strings.Builder).Grow", func(ip *Interp, fr *frame, args []Value) Value {
		n := asTerm(args[1])
		if !n.IsConst() {
			if ip.ex.Branch(ip.ts.Cmp(OpSlt, n, Const(64, 0))) {
				panic(targetPanic{Iface{t: types.Typ[types.String], v: "strings.Builder.Grow: negative count"}})
			}
			if ip.ex.Branch(ip.ts.Cmp(OpUlt, Const(64, maxAllocBytes), n)) {
				ip.throw("makeslice: len out of range")
			}
			ip.noteAlloc("strings.Builder.Grow", n)
		} else if n.ConstInt() < 0 {
			panic(targetPanic{Iface{t: types.Typ[types.String], v: "strings.Builder.Grow: negative count"}})
		} else {
			ip.noteAllocConst("strings.Builder.Grow", int(n.k))
		}
		return nil
	})

	// ---- strconv ----
	reg("strconv.FormatInt", func(ip *Interp, fr *frame, args []Value) Value {
		base := int(ip.concInt(args[1], "FormatInt base"))
		return numSeg(asTerm(args[0]), base, true, 0, false)
	})
	reg("strconv.FormatUint", func(ip *Interp, fr *frame, args []Value) Value {
		base := int(ip.concInt(args[1], "FormatUint base"))
		return numSeg(asTerm(args[0]), base, false, 0, false)
	})
	reg("strconv.Itoa", func(ip *Interp, fr *frame, args []Value) Value {
		return numSeg(asTerm(args[0]), 10, true, 0, false)
	})
	reg("strconv.FormatFloat", func(ip *Interp, fr *frame, args []Value) Value {
		f := asTerm(args[0])
		fm, prec, bs := asTerm(args[1]), asTerm(args[2]), asTerm(args[3])
		if f.IsConst() && fm.IsConst() && prec.IsConst() && bs.IsConst() {
			return strconv.FormatFloat(f64of(f.k), byte(fm.k), int(prec.ConstInt()), int(bs.ConstInt()))
		}
		// injective for a fixed format: shortest round-trip digits identify the value; with
		// bitSize 32 the value is rounded to float32 first, so that is the identifying value
		if bs.IsConst() && bs.ConstInt() == 32 {
			return opaqueStr("FormatFloat32", ip.ts.F64to32(f), fm, prec)
		}
		return opaqueStr("FormatFloat", f, fm, prec, bs)
	})
	reg("strconv.ParseFloat", func(ip *Interp, fr *frame, args []Value) Value {
		s, ok := args[0].(string)
		bs := asTerm(args[1])
		if !bs.IsConst() {
			ip.ex.endPath("unsupported", "strconv.ParseFloat with symbolic bit size")
		}
		if !ok {
			// bytes with a small finite set of feasible values (e.g. the case of an exponent
			// letter) are enumerated, so that the real function runs on concrete text
			bs2 := ip.strBytes(args[0])
			all := true
			buf := make([]byte, len(bs2))
			for i, b := range bs2 {
				if b.IsConst() {
					buf[i] = byte(b.k)
					continue
				}
				if n := ip.ex.domainSize(b); n > 0 && n <= 16 {
					buf[i] = byte(ip.ex.Concretize(b, "ParseFloat text byte"))
					continue
				}
				all = false
				break
			}
			if all {
				s, ok = string(buf), true
			}
		}
		if !ok {
			// Contract stub for symbolic text (the text->float mapping is trusted strconv):
			// an arbitrary result constrained only by ParseFloat's documented contract.
			ts := ip.ts
			ip.freshN++
			f := ts.Var(fmt.Sprintf("zz_parsefloat%d_bits", ip.freshN), 64)
			e := ts.Var(fmt.Sprintf("zz_parsefloat%d_err", ip.freshN), 8)
			ip.ex.note("strconv.ParseFloat contract stub used")
			ip.ex.Assume(ts.Cmp(OpUlt, e, Const(8, 3)))
			switch ip.ex.Concretize(e, "ParseFloat outcome") {
			case 0:
				ip.ex.Assume(ts.BAnd(ts.BNot(ts.FIsNaN(f)), ts.BNot(ts.FIsInf(f))))
				if bs.ConstInt() == 32 {
					ip.ex.Assume(ts.Eq(ts.F32to64(ts.F64to32(f)), f))
				}
				return Tuple{f, Iface{}}
			case 1:
				return Tuple{Const(64, 0), ip.newNumError("ParseFloat", "?", strconv.ErrSyntax)}
			default:
				ip.ex.Assume(ts.FIsInf(f))
				return Tuple{f, ip.newNumError("ParseFloat", "?", strconv.ErrRange)}
			}
		}
		f, err := strconv.ParseFloat(s, int(bs.ConstInt()))
		var ev Value = Iface{}
		if err != nil {
			ne := err.(*strconv.NumError)
			ev = ip.newNumError(ne.Func, ne.Num, ne.Err)
		}
		return Tuple{Const(64, math.Float64bits(f)), ev}
	})
	reg("strconv.Quote", func(ip *Interp, fr *frame, args []Value) Value {
		if s, ok := args[0].(string); ok {
			return strconv.Quote(s)
		}
		return opaqueStr("q", args[0])
	})

	// ---- regexp ----
	reg("regexp.MustCompile", func(ip *Interp, fr *frame, args []Value) Value {
		pat, ok := args[0].(string)
		if !ok {
			ip.ex.endPath("unsupported", "regexp pattern is symbolic")
		}
		re, err := compileRegexp(pat)
		if err != nil {
			panic(targetPanic{Iface{t: types.Typ[types.String], v: "regexp: Compile(" + strconv.Quote(pat) + "): " + err.Error()}})
		}
		return re
	})
	reg("regexp.Compile", func(ip *Interp, fr *frame, args []Value) Value {
		pat, ok := args[0].(string)
		if !ok {
			ip.ex.endPath("unsupported", "regexp pattern is symbolic")
		}
		re, err := compileRegexp(pat)
		if err != nil {
			return Tuple{(*NativeObj)(nil), ip.newError(err.Error())}
		}
		return Tuple{re, Iface{}}
	})
	reg("(*regexp.Regexp).MatchString", func(ip *Interp, fr *frame, args []Value) Value {
		re := args[0].(*NativeObj).obj.(*compiledRe)
		if s, ok := args[1].(string); ok {
			return Bool(re.re.MatchString(s))
		}
		loc := ip.regexFind(re, ip.strBytes(args[1]))
		return Bool(loc != nil)
	})
	reg("(*regexp.Regexp).FindStringIndex", func(ip *Interp, fr *frame, args []Value) Value {
		re := args[0].(*NativeObj).obj.(*compiledRe)
		var loc []int
		if s, ok := args[1].(string); ok {
			loc = re.re.FindStringIndex(s)
		} else {
			loc = ip.regexFind(re, ip.strBytes(args[1]))
		}
		if loc == nil {
			return Slice{}
		}
		return Slice{s: []Value{Const(64, uint64(loc[0])), Const(64, uint64(loc[1]))}, nonNil: true}
	})
	reg("(*regexp.Regexp).FindString", func(ip *Interp, fr *frame, args []Value) Value {
		re := args[0].(*NativeObj).obj.(*compiledRe)
		if s, ok := args[1].(string); ok {
			return re.re.FindString(s)
		}
		b := ip.strBytes(args[1])
		loc := ip.regexFind(re, b)
		if loc == nil {
			return ""
		}
		return mkStr(b[loc[0]:loc[1]])
	})

	// ---- sort ----
	reg("sort.Slice", func(ip *Interp, fr *frame, args []Value) Value {
		s := args[0].(Iface).v.(Slice)
		less := args[1]
		lt := func(i, j int) bool {
			r := ip.call(fr, token.NoPos, less, []Value{Const(64, uint64(i)), Const(64, uint64(j))})
			return ip.ex.Branch(asTerm(r))
		}
		// insertion sort (what sort.Slice does for n <= 12); stable w.r.t. ties differently
		// from pdqsort only when less reports ties
		for i := 1; i < len(s.s); i++ {
			for j := i; j > 0 && lt(j, j-1); j-- {
				s.s[j], s.s[j-1] = s.s[j-1], s.s[j]
			}
		}
		return nil
	})
	intrinsics["sort.SliceStable"] = intrinsics["sort.Slice"] // the insertion sort above only swaps adjacent elements that are out of order: stable
	reg("sort.Ints", func(ip *Interp, fr *frame, args []Value) Value {
		s := args[0].(Slice)
		for i := 1; i < len(s.s); i++ {
			for j := i; j > 0 && ip.ex.Branch(ip.ts.Cmp(OpSlt, asTerm(s.s[j]), asTerm(s.s[j-1]))); j-- {
				s.s[j], s.s[j-1] = s.s[j-1], s.s[j]
			}
		}
		return nil
	})
	reg("sort.Strings", func(ip *Interp, fr *frame, args []Value) Value {
		s := args[0].(Slice)
		for i := 1; i < len(s.s); i++ {
			for j := i; j > 0 && ip.ex.Branch(ip.strLess(s.s[j], s.s[j-1])); j-- {
				s.s[j], s.s[j-1] = s.s[j-1], s.s[j]
			}
		}
		return nil
	})

	// ---- sync (single-threaded engine: locks are no-ops, recorded for the write-set monitor) ----
	for _, n := range []string{"(*sync.Mutex).Lock", "(*sync.Mutex).Unlock", "(*sync.RWMutex).Lock", "(*sync.RWMutex).Unlock", "(*sync.RWMutex).RLock", "(*sync.RWMutex).RUnlock"} {
		name := n
		reg(name, func(ip *Interp, fr *frame, args []Value) Value {
			if strings.HasSuffix(name, "Unlock") {
				ip.lockDepth--
			} else {
				ip.lockDepth++
			}
			return nil
		})
	}
	// sync.Map: a concurrency-safe map; modelled as an engine map per receiver (stores are
	// synchronised by definition, so the write-set monitor does not count them)
	smap := func(ip *Interp, recv Value) *MapV {
		p := recv.(*Value)
		if ip.syncMaps == nil {
			ip.syncMaps = map[*Value]*MapV{}
		}
		m, ok := ip.syncMaps[p]
		if !ok {
			ip.nextMapID++
			m = &MapV{kt: types.NewInterfaceType(nil, nil), id: ip.nextMapID}
			ip.syncMaps[p] = m
		}
		return m
	}
	reg("(*sync.Map).Load", func(ip *Interp, fr *frame, args []Value) Value {
		if e := ip.mapFind(smap(ip, args[0]), args[1]); e != nil {
			return Tuple{e.v, tTrue}
		}
		return Tuple{Iface{}, tFalse}
	})
	reg("(*sync.Map).Store", func(ip *Interp, fr *frame, args []Value) Value {
		m := smap(ip, args[0])
		if e := ip.mapFind(m, args[1]); e != nil {
			e.v = args[2]
		} else {
			m.add(&mapEntry{k: args[1], v: args[2]})
		}
		return nil
	})
	reg("(*sync.Map).LoadOrStore", func(ip *Interp, fr *frame, args []Value) Value {
		m := smap(ip, args[0])
		if e := ip.mapFind(m, args[1]); e != nil {
			return Tuple{e.v, tTrue}
		}
		m.add(&mapEntry{k: args[1], v: args[2]})
		return Tuple{args[2], tFalse}
	})
	reg("(*sync.Map).Delete", func(ip *Interp, fr *frame, args []Value) Value {
		m := smap(ip, args[0])
		if e := ip.mapFind(m, args[1]); e != nil {
			for i, c := range m.entries {
				if c == e {
					m.removeAt(i)
					break
				}
			}
		}
		return nil
	})
	reg("(*sync.Map).Range", func(ip *Interp, fr *frame, args []Value) Value {
		m := smap(ip, args[0])
		for _, e := range append([]*mapEntry{}, m.entries...) {
			r := ip.call(fr, token.NoPos, args[1], []Value{e.k, e.v})
			if !ip.ex.Branch(asTerm(r)) {
				break
			}
		}
		return nil
	})
	// sync/atomic on integers: the engine is single-threaded, so these are plain reads and
	// writes; like stores under a mutex they are synchronised and not counted as shared writes
	for _, ty := range []string{"Int32", "Int64", "Uint32", "Uint64", "Uintptr"} {
		ty := ty
		reg("sync/atomic.Load"+ty, func(ip *Interp, fr *frame, args []Value) Value { return ip.load(args[0]) })
		reg("sync/atomic.Store"+ty, func(ip *Interp, fr *frame, args []Value) Value {
			p := args[0].(*Value)
			if p == nil {
				ip.throw("invalid memory address or nil pointer dereference")
			}
			ip.syncWrites++
			*p = args[1]
			return nil
		})
		reg("sync/atomic.Add"+ty, func(ip *Interp, fr *frame, args []Value) Value {
			p := args[0].(*Value)
			if p == nil {
				ip.throw("invalid memory address or nil pointer dereference")
			}
			ip.syncWrites++
			*p = ip.ts.Bin(OpAdd, asTerm(*p), asTerm(args[1]))
			return *p
		})
		reg("sync/atomic.Swap"+ty, func(ip *Interp, fr *frame, args []Value) Value {
			p := args[0].(*Value)
			if p == nil {
				ip.throw("invalid memory address or nil pointer dereference")
			}
			ip.syncWrites++
			old := *p
			*p = args[1]
			return old
		})
		reg("sync/atomic.CompareAndSwap"+ty, func(ip *Interp, fr *frame, args []Value) Value {
			p := args[0].(*Value)
			if p == nil {
				ip.throw("invalid memory address or nil pointer dereference")
			}
			if ip.ex.Branch(ip.ts.Eq(asTerm(*p), asTerm(args[1]))) {
				ip.syncWrites++
				*p = args[2]
				return tTrue
			}
			return tFalse
		})
	}
	// sync.Pool: Get may hand back any object that was Put before, or a new one: both are
	// explored (a pooled object is owned by one caller at a time, so the write-set monitor does
	// not treat it as shared memory; state it carries from one call into the next is visible)
	reg("(*sync.Pool).Get", func(ip *Interp, fr *frame, args []Value) Value {
		p := args[0].(*Value)
		if items := ip.syncPools[p]; len(items) > 0 {
			// both outcomes are explored for the first three such calls on a path; later calls
			// take the pooled object (what the runtime does on one P between collections)
			take := true
			ip.poolForks++
			if ip.poolForks <= 3 {
				ip.freshN++
				v := ip.ts.Var(fmt.Sprintf("zz_pool_get%d", ip.freshN), 8)
				ip.ex.Assume(ip.ts.Cmp(OpUlt, v, Const(8, 2)))
				take = ip.ex.Concretize(v, "sync.Pool.Get outcome") == 1
			}
			if take {
				it := items[len(items)-1]
				ip.syncPools[p] = items[:len(items)-1]
				return it
			}
		}
		st := (*p).(Struct)
		newFn := st[len(st)-1]
		if f, ok := newFn.(*ssa.Function); ok && f == nil {
			return Iface{}
		}
		return ip.call(fr, token.NoPos, newFn, nil)
	})
	reg("(*sync.Pool).Put", func(ip *Interp, fr *frame, args []Value) Value {
		p := args[0].(*Value)
		if it, ok := args[1].(Iface); ok && it.t == nil {
			return nil
		}
		if ip.syncPools == nil {
			ip.syncPools = map[*Value][]Value{}
		}
		ip.syncPools[p] = append(ip.syncPools[p], args[1])
		return nil
	})
	reg("(*sync.Once).Do", func(ip *Interp, fr *frame, args []Value) Value {
		p := args[0].(*Value)
		st := (*p).(Struct)
		done := false
		if t, ok := st[0].(*Term); ok && t.IsConst() && t.k != 0 {
			done = true
		}
		if s2, ok := st[0].(Struct); ok { // atomic.Uint32 wrapper in newer toolchains
			if t, ok := s2[len(s2)-1].(*Term); ok && t.k != 0 {
				done = true
			}
		}
		if !done {
			ip.lockDepth++
			ip.call(fr, token.NoPos, args[1], nil)
			ip.lockDepth--
			if s2, ok := st[0].(Struct); ok {
				s2[len(s2)-1] = Const(32, 1)
			} else {
				st[0] = Const(32, 1)
			}
		}
		return nil
	})
}

// ---- errors ----

var errorStringType types.Type // *errors.errorString, resolved at load time
var numErrorType types.Type    // *strconv.NumError

func (ip *Interp) newError(msg Value) Value {
	cell := new(Value)
	*cell = Struct{msg}
	return Iface{t: errorStringType, v: cell}
}

func (ip *Interp) newNumError(fn, num string, err error) Value {
	var ev Value
	switch err {
	case strconv.ErrRange:
		ev = ip.errRange
	case strconv.ErrSyntax:
		ev = ip.errSyntax
	default:
		ev = ip.newError(err.Error())
	}
	cell := new(Value)
	*cell = Struct{fn, num, ev}
	return Iface{t: numErrorType, v: cell}
}

// ---- rune classes ----

type rangeList [][2]uint32

var (
	classOnce   sync.Once
	classRanges map[string]rangeList
)

func tableRanges(tabs ...*unicode.RangeTable) rangeList {
	var out rangeList
	for _, tab := range tabs {
		for _, r := range tab.R16 {
			if r.Stride == 1 {
				out = append(out, [2]uint32{uint32(r.Lo), uint32(r.Hi)})
			} else {
				for c := uint32(r.Lo); c <= uint32(r.Hi); c += uint32(r.Stride) {
					out = append(out, [2]uint32{c, c})
				}
			}
		}
		for _, r := range tab.R32 {
			if r.Stride == 1 {
				out = append(out, [2]uint32{r.Lo, r.Hi})
			} else {
				for c := r.Lo; c <= r.Hi; c += r.Stride {
					out = append(out, [2]uint32{c, c})
				}
			}
		}
	}
	return out
}

var (
	classMu    sync.Mutex
	tableCache = map[string]rangeList{}
)

// hostRangeTable resolves the name of an exported *unicode.RangeTable variable.
func hostRangeTable(name string) *unicode.RangeTable {
	alias := map[string]string{"Letter": "L", "Mark": "M", "Number": "N", "Punct": "P", "Symbol": "S", "Space": "Z", "Other": "C",
		"Digit": "Nd", "Upper": "Lu", "Lower": "Ll", "Title": "Lt", "Control": "Cc"}
	if a, ok := alias[name]; ok {
		name = a
	}
	if t, ok := unicode.Categories[name]; ok {
		return t
	}
	if t, ok := unicode.Scripts[name]; ok {
		return t
	}
	if t, ok := unicode.Properties[name]; ok {
		return t
	}
	return nil
}

func initClasses() {
	classRanges = map[string]rangeList{
		"space":  tableRanges(unicode.White_Space),
		"letter": tableRanges(unicode.Letter),
		"digit":  tableRanges(unicode.Digit),
		"upper":  tableRanges(unicode.Upper),
		"lower":  tableRanges(unicode.Lower),
	}
}

func classFn(name string) func(rune) bool {
	switch name {
	case "space":
		return unicode.IsSpace
	case "letter":
		return unicode.IsLetter
	case "digit":
		return unicode.IsDigit
	case "upper":
		return unicode.IsUpper
	case "lower":
		return unicode.IsLower
	}
	panic(name)
}

// runeClass gives the class predicate as a term.  For symbolic runes the ASCII/Latin-1
// part is a formula; above U+00FF the path forks once and uses the toolchain's tables.
func (ip *Interp) runeClass(r *Term, class string) *Term {
	if r.IsConst() {
		return Bool(classFn(class)(rune(int32(r.k))))
	}
	classOnce.Do(initClasses)
	ts := ip.ts
	inRanges := func(rl rangeList, lo, hi uint32) *Term {
		res := tFalse
		for _, rg := range rl {
			a, b := rg[0], rg[1]
			if b < lo || a > hi {
				continue
			}
			if a < lo {
				a = lo
			}
			if b > hi {
				b = hi
			}
			var c *Term
			if a == b {
				c = ts.Eq(r, Const(32, uint64(a)))
			} else {
				c = ts.BAnd(ts.Cmp(OpUle, Const(32, uint64(a)), r), ts.Cmp(OpUle, r, Const(32, uint64(b))))
			}
			res = ts.BOr(res, c)
		}
		return res
	}
	rl, okc := classRanges[class]
	if !okc {
		// "table:<name>": any table of package unicode (categories, scripts, properties)
		classMu.Lock()
		rl, okc = tableCache[class]
		if !okc {
			rl = tableRanges(hostRangeTable(strings.TrimPrefix(class, "table:")))
			tableCache[class] = rl
		}
		classMu.Unlock()
	}
	if _, hi, ok := urange(r); ok && hi <= 0xFF {
		return inRanges(rl, 0, 0xFF)
	}
	if ip.ex.Branch(ts.Cmp(OpUle, r, Const(32, 0xFF))) {
		return inRanges(rl, 0, 0xFF)
	}
	return inRanges(rl, 0x100, 0x10FFFF)
}

// ---- string search models ----

func (ip *Interp) strIndex(sv, subv Value, last bool) Value {
	if s, ok := sv.(string); ok {
		if sub, ok := subv.(string); ok {
			if last {
				return Const(64, uint64(int64(strings.LastIndex(s, sub))))
			}
			return Const(64, uint64(int64(strings.Index(s, sub))))
		}
	}
	b, sub := ip.strBytes(sv), ip.strBytes(subv)
	n, m := len(b), len(sub)
	if m == 0 {
		if last {
			return Const(64, uint64(n))
		}
		return Const(64, 0)
	}
	matchAt := func(i int) *Term {
		r := tTrue
		for j := 0; j < m; j++ {
			r = ip.ts.BAnd(r, ip.ts.Eq(b[i+j], sub[j]))
		}
		return r
	}
	if last {
		for i := n - m; i >= 0; i-- {
			if ip.ex.Branch(matchAt(i)) {
				return Const(64, uint64(i))
			}
		}
	} else {
		for i := 0; i+m <= n; i++ {
			if ip.ex.Branch(matchAt(i)) {
				return Const(64, uint64(i))
			}
		}
	}
	return Const(64, ^uint64(0))
}

func (ip *Interp) indexByte(sv Value, c *Term) Value {
	b := ip.strBytes(sv)
	for i, t := range b {
		if ip.ex.Branch(ip.ts.Eq(t, c)) {
			return Const(64, uint64(i))
		}
	}
	return Const(64, ^uint64(0))
}

// caseMap models strings.ToUpper/ToLower: exact for ASCII content; a symbolic string
// that may contain non-ASCII bytes forks, and the non-ASCII side is not modelled.
func (ip *Interp) caseMap(v Value, upper bool) Value {
	if s, ok := v.(string); ok {
		if upper {
			return strings.ToUpper(s)
		}
		return strings.ToLower(s)
	}
	ts := ip.ts
	b := ip.strBytes(v)
	out := make([]*Term, len(b))
	for i, t := range b {
		if !ip.ex.Branch(ts.Cmp(OpUlt, t, Const(8, 0x80))) {
			ip.ex.endPath("unsupported", "case mapping of a symbolic non-ASCII string")
		}
		if upper {
			isL := ts.BAnd(ts.Cmp(OpUle, byteConst['a'], t), ts.Cmp(OpUle, t, byteConst['z']))
			out[i] = ts.Ite(isL, ts.Bin(OpSub, t, Const(8, 32)), t)
		} else {
			isU := ts.BAnd(ts.Cmp(OpUle, byteConst['A'], t), ts.Cmp(OpUle, t, byteConst['Z']))
			out[i] = ts.Ite(isU, ts.Bin(OpAdd, t, Const(8, 32)), t)
		}
	}
	return mkStr(out)
}

// ---- regexp ----

type compiledRe struct {
	re   *regexp.Regexp
	prog *syntax.Prog
	pat  string
}

var reCache sync.Map

func compileRegexp(pat string) (*NativeObj, error) {
	if v, ok := reCache.Load(pat); ok {
		return v.(*NativeObj), nil
	}
	re, err := regexp.Compile(pat)
	if err != nil {
		return nil, err
	}
	rs, err := syntax.Parse(pat, syntax.Perl)
	if err != nil {
		return nil, err
	}
	prog, err := syntax.Compile(rs.Simplify())
	if err != nil {
		return nil, err
	}
	o := &NativeObj{kind: "regexp", obj: &compiledRe{re: re, prog: prog, pat: pat}}
	reCache.Store(pat, o)
	return o, nil
}

// regexFind simulates the compiled program (leftmost-first semantics, as the
// backtracker of package regexp) on symbolic bytes; every rune test is a decision.
func (ip *Interp) regexFind(re *compiledRe, b []*Term) []int {
	prog := re.prog
	ts := ip.ts
	anchoredStart := prog.StartCond()&syntax.EmptyBeginText != 0
	for start := 0; start <= len(b); {
		visited := map[[2]int]bool{}
		end := -1
		var run func(pc, pos int) bool
		run = func(pc, pos int) bool {
			for {
				key := [2]int{pc, pos}
				if visited[key] {
					return false
				}
				visited[key] = true
				ip.tick(1)
				inst := &prog.Inst[pc]
				switch inst.Op {
				case syntax.InstFail:
					return false
				case syntax.InstMatch:
					end = pos
					return true
				case syntax.InstNop, syntax.InstCapture:
					pc = int(inst.Out)
				case syntax.InstAlt:
					if run(int(inst.Out), pos) {
						return true
					}
					pc = int(inst.Arg)
				case syntax.InstAltMatch:
					if run(int(inst.Out), pos) {
						return true
					}
					pc = int(inst.Arg)
				case syntax.InstEmptyWidth:
					if !ip.emptyWidthOK(syntax.EmptyOp(inst.Arg), b, pos) {
						return false
					}
					pc = int(inst.Out)
				case syntax.InstRune, syntax.InstRune1, syntax.InstRuneAny, syntax.InstRuneAnyNotNL:
					if pos >= len(b) {
						return false
					}
					r, w := ip.decodeRune(b, pos)
					var cond *Term
					switch inst.Op {
					case syntax.InstRuneAny:
						cond = tTrue
					case syntax.InstRuneAnyNotNL:
						cond = ts.BNot(ts.Eq(r, Const(32, '\n')))
					default:
						cond = ip.instRuneCond(inst, r)
					}
					if !ip.ex.Branch(cond) {
						return false
					}
					pc, pos = int(inst.Out), pos+w
				default:
					panic("regexFind: bad inst")
				}
			}
		}
		if run(prog.Start, start) {
			return []int{start, end}
		}
		if anchoredStart || start >= len(b) {
			break
		}
		_, w := ip.decodeRune(b, start)
		start += w
	}
	return nil
}

func (ip *Interp) instRuneCond(inst *syntax.Inst, r *Term) *Term {
	ts := ip.ts
	if r.IsConst() {
		return Bool(inst.MatchRune(rune(int32(r.k))))
	}
	rs := inst.Rune
	fold := syntax.Flags(inst.Arg)&syntax.FoldCase != 0
	cond := tFalse
	if len(rs) == 1 {
		c := rs[0]
		cond = ts.Eq(r, Const(32, uint64(c)))
		if fold {
			for f := unicode.SimpleFold(c); f != c; f = unicode.SimpleFold(f) {
				cond = ts.BOr(cond, ts.Eq(r, Const(32, uint64(f))))
			}
		}
		return cond
	}
	for i := 0; i+1 < len(rs); i += 2 {
		lo, hi := rs[i], rs[i+1]
		var c *Term
		if lo == hi {
			c = ts.Eq(r, Const(32, uint64(lo)))
		} else {
			c = ts.BAnd(ts.Cmp(OpUle, Const(32, uint64(lo)), r), ts.Cmp(OpUle, r, Const(32, uint64(hi))))
		}
		cond = ts.BOr(cond, c)
	}
	return cond
}

func (ip *Interp) emptyWidthOK(op syntax.EmptyOp, b []*Term, pos int) bool {
	ts := ip.ts
	isNL := func(i int) bool { return ip.ex.Branch(ts.Eq(b[i], byteConst['\n'])) }
	isWord := func(i int) bool {
		if i < 0 || i >= len(b) {
			return false
		}
		t := b[i]
		in := func(lo, hi byte) *Term {
			return ts.BAnd(ts.Cmp(OpUle, byteConst[lo], t), ts.Cmp(OpUle, t, byteConst[hi]))
		}
		return ip.ex.Branch(ts.BOr(ts.BOr(in('a', 'z'), in('A', 'Z')), ts.BOr(in('0', '9'), ts.Eq(t, byteConst['_']))))
	}
	if op&syntax.EmptyBeginText != 0 && pos != 0 {
		return false
	}
	if op&syntax.EmptyEndText != 0 && pos != len(b) {
		return false
	}
	if op&syntax.EmptyBeginLine != 0 && pos != 0 && !isNL(pos-1) {
		return false
	}
	if op&syntax.EmptyEndLine != 0 && pos != len(b) && !isNL(pos) {
		return false
	}
	if op&(syntax.EmptyWordBoundary|syntax.EmptyNoWordBoundary) != 0 {
		boundary := isWord(pos-1) != isWord(pos)
		if op&syntax.EmptyWordBoundary != 0 && !boundary {
			return false
		}
		if op&syntax.EmptyNoWordBoundary != 0 && boundary {
			return false
		}
	}
	return true
}

var _ = fmt.Sprint
var _ ssa.Value
