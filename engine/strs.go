package main

// Strings: a concrete Go string, or a *SymStr made of segments:
//   bytes   - concrete count of bytes, each a term
//   num     - the digits of a term in some base, materialised lazily (forks on length)
//   opaque  - an injective function of its arguments whose text is not modelled
//             (only equality against an opaque segment with the same tag is supported)

import (
	"fmt"
	"strconv"
	"strings"
	"unicode/utf8"
)

type segKind uint8

const (
	segBytes segKind = iota
	segNum
	segOpaque
)

type strSeg struct {
	kind   segKind
	b      []*Term
	num    *Term
	base   int
	signed bool
	minw   int  // minimal digit count (zero padded), for %02X
	upper  bool // upper-case hex digits
	tag    string
	args   []Value
	mat    []*Term // materialised bytes of a num segment (path-local)
}

type SymStr struct {
	segs []*strSeg
}

func (s *SymStr) debug() string {
	var sb strings.Builder
	sb.WriteString("sym\"")
	for _, g := range s.segs {
		switch g.kind {
		case segBytes:
			for _, b := range g.b {
				if b.IsConst() {
					c := byte(b.k)
					if c >= 32 && c < 127 {
						sb.WriteByte(c)
					} else {
						fmt.Fprintf(&sb, "\\x%02x", c)
					}
				} else {
					sb.WriteString("{" + b.String() + "}")
				}
			}
		case segNum:
			fmt.Fprintf(&sb, "{num%d %s}", g.base, g.num)
		case segOpaque:
			fmt.Fprintf(&sb, "{%s/%d}", g.tag, len(g.args))
		}
	}
	sb.WriteString("\"")
	return sb.String()
}

func constBytes(s string) []*Term {
	out := make([]*Term, len(s))
	for i := 0; i < len(s); i++ {
		out[i] = byteConst[s[i]]
	}
	return out
}

var byteConst [256]*Term

func init() {
	for i := range byteConst {
		byteConst[i] = Const(8, uint64(i))
	}
}

// mkStr builds a string value from byte terms, normalising to a Go string when concrete.
func mkStr(b []*Term) Value {
	for _, t := range b {
		if !t.IsConst() {
			return &SymStr{segs: []*strSeg{{kind: segBytes, b: b}}}
		}
	}
	buf := make([]byte, len(b))
	for i, t := range b {
		buf[i] = byte(t.k)
	}
	return string(buf)
}

func segsOf(v Value) []*strSeg {
	switch v := v.(type) {
	case string:
		if v == "" {
			return nil
		}
		return []*strSeg{{kind: segBytes, b: constBytes(v)}}
	case *SymStr:
		return v.segs
	}
	panic(fmt.Sprintf("segsOf: not a string: %T", v))
}

func normStr(segs []*strSeg) Value {
	// merge adjacent byte segments; collapse to a Go string when concrete
	var out []*strSeg
	for _, g := range segs {
		if g.kind == segBytes && len(g.b) == 0 {
			continue
		}
		if g.kind == segNum && g.mat != nil {
			g = &strSeg{kind: segBytes, b: g.mat}
		}
		if g.kind == segBytes && len(out) > 0 && out[len(out)-1].kind == segBytes {
			last := out[len(out)-1]
			nb := make([]*Term, 0, len(last.b)+len(g.b))
			nb = append(append(nb, last.b...), g.b...)
			out[len(out)-1] = &strSeg{kind: segBytes, b: nb}
			continue
		}
		out = append(out, g)
	}
	if len(out) == 0 {
		return ""
	}
	if len(out) == 1 && out[0].kind == segBytes {
		return mkStr(out[0].b)
	}
	return &SymStr{segs: out}
}

func concatStr(x, y Value) Value {
	if xs, ok := x.(string); ok {
		if ys, ok := y.(string); ok {
			return xs + ys
		}
	}
	segs := append(append([]*strSeg{}, segsOf(x)...), segsOf(y)...)
	return normStr(segs)
}

func numSeg(t *Term, base int, signed bool, minw int, upper bool) Value {
	if t.IsConst() {
		var s string
		if signed {
			s = strconv.FormatInt(t.ConstInt(), base)
		} else {
			s = strconv.FormatUint(t.k, base)
		}
		if upper {
			s = strings.ToUpper(s)
		}
		for len(s) < minw {
			s = "0" + s
		}
		return s
	}
	return &SymStr{segs: []*strSeg{{kind: segNum, num: t, base: base, signed: signed, minw: minw, upper: upper}}}
}

func opaqueStr(tag string, args ...Value) Value {
	return &SymStr{segs: []*strSeg{{kind: segOpaque, tag: tag, args: args}}}
}

// materialise turns a num segment into bytes, forking on sign and digit count.
func (ip *Interp) materialise(g *strSeg) []*Term {
	if g.mat != nil {
		return g.mat
	}
	ts := ip.ts
	t := g.num
	signed := g.signed
	// work at the narrowest width that holds the value: digit extraction by division is
	// much cheaper for the solver on 8/16-bit vectors than on 64-bit ones
	switch {
	case t.op == OpSExt && signed:
		t = t.a
	case t.op == OpZExt:
		t = t.a
		signed = false
	default:
		if _, hi, ok := urange(t); ok && hi <= mask(t.w)>>1 {
			signed = false
			for _, nw := range []int{8, 16, 32} {
				if nw < int(t.w) && hi <= mask(uint8(nw)) {
					t = ts.Extract(t, nw-1, 0)
					break
				}
			}
		}
	}
	w := int(t.w)
	neg := false
	abs := t
	if signed {
		if ip.ex.Branch(ts.Cmp(OpSlt, t, Const(w, 0))) {
			neg = true
			abs = ts.Neg(t) // two's complement magnitude, correct as unsigned also for MinInt
		}
	}
	base := uint64(g.base)
	// number of digits: smallest n>=1 with abs < base^n
	var pows []uint64
	for p, lim := base, mask(uint8(w)); ; {
		pows = append(pows, p)
		if p > lim/base {
			break
		}
		p *= base
	}
	n := len(pows) + 1
	for k, p := range pows {
		if ip.ex.Branch(ts.Cmp(OpUlt, abs, Const(w, p))) {
			n = k + 1
			break
		}
	}
	digits := make([]*Term, 0, n+1)
	if neg {
		digits = append(digits, byteConst['-'])
	}
	for i := n; i < g.minw; i++ {
		digits = append(digits, byteConst['0'])
	}
	div := uint64(1)
	divs := make([]uint64, n)
	for i := n - 1; i >= 0; i-- {
		divs[i] = div
		div *= base
	}
	for i := 0; i < n; i++ {
		d := abs
		if divs[i] != 1 {
			d = ts.Bin(OpUDiv, abs, Const(w, divs[i]))
		}
		if i > 0 {
			d = ts.Bin(OpURem, d, Const(w, base))
		}
		d8 := ts.Extract(ts.ZExt(d, max(w, 8)), 7, 0)
		var ch *Term
		if g.base <= 10 {
			ch = ts.Bin(OpAdd, d8, byteConst['0'])
		} else {
			a := byte('a')
			if g.upper {
				a = 'A'
			}
			ch = ts.Ite(ts.Cmp(OpUlt, d8, Const(8, 10)), ts.Bin(OpAdd, d8, byteConst['0']), ts.Bin(OpAdd, d8, Const(8, uint64(a-10))))
		}
		digits = append(digits, ch)
	}
	g.mat = digits
	return digits
}

// strBytes returns the bytes of a string value (materialising lazy segments).
func (ip *Interp) strBytes(v Value) []*Term {
	switch v := v.(type) {
	case string:
		return constBytes(v)
	case *SymStr:
		if len(v.segs) == 1 && v.segs[0].kind == segBytes {
			return v.segs[0].b
		}
		var out []*Term
		for _, g := range v.segs {
			switch g.kind {
			case segBytes:
				out = append(out, g.b...)
			case segNum:
				out = append(out, ip.materialise(g)...)
			case segOpaque:
				ip.ex.endPath("unsupported", "content of opaque string "+g.tag+" inspected")
			}
		}
		return out
	}
	panic(fmt.Sprintf("strBytes: not a string: %T", v))
}

func (ip *Interp) strLen(v Value) int {
	if s, ok := v.(string); ok {
		return len(s)
	}
	return len(ip.strBytes(v))
}

// strEq gives the symbolic equality of two strings.
func (ip *Interp) strEq(x, y Value) *Term {
	if xs, ok := x.(string); ok {
		if ys, ok := y.(string); ok {
			return Bool(xs == ys)
		}
	}
	ts := ip.ts
	sx, sy := segsOf(x), segsOf(y)
	lazy := func(ss []*strSeg) bool {
		for _, g := range ss {
			if g.kind != segBytes && g.mat == nil {
				return true
			}
		}
		return false
	}
	if lazy(sx) || lazy(sy) {
		// try segment-wise structural alignment
		if r, ok := ip.alignedEq(sx, sy); ok {
			return r
		}
	}
	bx, by := ip.strBytes(x), ip.strBytes(y)
	if len(bx) != len(by) {
		return tFalse
	}
	r := tTrue
	for i := range bx {
		r = ts.BAnd(r, ts.Eq(bx[i], by[i]))
		if r == tFalse {
			return r
		}
	}
	return r
}

// alignedEq compares segment lists position-wise; it succeeds when both have the same
// segment structure (byte segments of equal length, num segments with the same
// formatting, opaque segments with the same tag).
func (ip *Interp) alignedEq(sx, sy []*strSeg) (*Term, bool) {
	ts := ip.ts
	// split byte segments so that boundaries coincide
	type atom struct {
		b *Term
		g *strSeg
	}
	flat := func(ss []*strSeg) []atom {
		var out []atom
		for _, g := range ss {
			if g.kind == segBytes {
				for _, b := range g.b {
					out = append(out, atom{b: b})
				}
			} else if g.mat != nil {
				for _, b := range g.mat {
					out = append(out, atom{b: b})
				}
			} else {
				out = append(out, atom{g: g})
			}
		}
		return out
	}
	ax, ay := flat(sx), flat(sy)
	if len(ax) != len(ay) {
		return nil, false
	}
	r := tTrue
	for i := range ax {
		a, b := ax[i], ay[i]
		switch {
		case a.b != nil && b.b != nil:
			r = ts.BAnd(r, ts.Eq(a.b, b.b))
		case a.g != nil && b.g != nil && a.g.kind == b.g.kind:
			if a.g.kind == segNum {
				if a.g.base != b.g.base || a.g.signed != b.g.signed || a.g.minw != b.g.minw || a.g.upper != b.g.upper || a.g.num.w != b.g.num.w {
					return nil, false
				}
				r = ts.BAnd(r, ts.Eq(a.g.num, b.g.num))
			} else {
				if a.g.tag != b.g.tag || len(a.g.args) != len(b.g.args) {
					return nil, false
				}
				for j := range a.g.args {
					r = ts.BAnd(r, ip.opaqueArgEq(a.g.args[j], b.g.args[j]))
				}
			}
		default:
			return nil, false
		}
	}
	return r, true
}

func (ip *Interp) opaqueArgEq(x, y Value) *Term {
	switch x := x.(type) {
	case *Term:
		if yt, ok := y.(*Term); ok && yt.w == x.w {
			return ip.ts.Eq(x, yt)
		}
		return tFalse
	case string, *SymStr:
		switch y.(type) {
		case string, *SymStr:
			return ip.strEq(x, y)
		}
		return tFalse
	}
	ip.ex.endPath("unsupported", "opaque string argument comparison")
	return nil
}

// strLess gives x < y (bytewise lexicographic) as a term.
func (ip *Interp) strLess(x, y Value) *Term {
	if xs, ok := x.(string); ok {
		if ys, ok := y.(string); ok {
			return Bool(xs < ys)
		}
	}
	ts := ip.ts
	bx, by := ip.strBytes(x), ip.strBytes(y)
	n := min(len(bx), len(by))
	// build from the end: less_i = bx[i]<by[i] || (bx[i]==by[i] && less_{i+1})
	r := Bool(len(bx) < len(by))
	for i := n - 1; i >= 0; i-- {
		r = ts.BOr(ts.Cmp(OpUlt, bx[i], by[i]), ts.BAnd(ts.Eq(bx[i], by[i]), r))
	}
	return r
}

func (ip *Interp) strSlice(v Value, lo, hi int) Value {
	if s, ok := v.(string); ok {
		return s[lo:hi]
	}
	b := ip.strBytes(v)
	return mkStr(b[lo:hi])
}

// decodeRune decodes one UTF-8 sequence at b[i:], forking on the byte classes, with the
// exact semantics of utf8.DecodeRuneInString (RuneError, width 1 on invalid input).
func (ip *Interp) decodeRune(b []*Term, i int) (r *Term, width int) {
	ts := ip.ts
	ex := ip.ex
	if i >= len(b) {
		return Const(32, uint64(utf8.RuneError)), 0
	}
	b0 := b[i]
	if b0.IsConst() {
		// fast path when the whole sequence is concrete
		n := 1
		for n < 4 && i+n < len(b) && b[i+n].IsConst() {
			n++
		}
		buf := make([]byte, n)
		for j := 0; j < n; j++ {
			buf[j] = byte(b[i+j].k)
		}
		if utf8.FullRune(buf) || n == len(b)-i {
			rr, w := utf8.DecodeRune(buf)
			return Const(32, uint64(rr)), w
		}
	}
	inRange := func(t *Term, lo, hi byte) *Term {
		return ts.BAnd(ts.Cmp(OpUle, Const(8, uint64(lo)), t), ts.Cmp(OpUle, t, Const(8, uint64(hi))))
	}
	z32 := func(t *Term) *Term { return ts.ZExt(t, 32) }
	bad := Const(32, uint64(utf8.RuneError))
	if ex.Branch(ts.Cmp(OpUlt, b0, Const(8, 0x80))) {
		return z32(b0), 1
	}
	cont := func(j int, lo, hi byte) bool {
		if i+j >= len(b) {
			return false
		}
		return ex.Branch(inRange(b[i+j], lo, hi))
	}
	low6 := func(t *Term) *Term { return z32(ts.Bin(OpAnd, t, Const(8, 0x3f))) }
	shl := func(t *Term, n uint64) *Term { return ts.Bin(OpShl, t, Const(32, n)) }
	or := func(x, y *Term) *Term { return ts.Bin(OpOr, x, y) }
	// two-byte
	if ex.Branch(inRange(b0, 0xC2, 0xDF)) {
		if !cont(1, 0x80, 0xBF) {
			return bad, 1
		}
		return or(shl(z32(ts.Bin(OpAnd, b0, Const(8, 0x1f))), 6), low6(b[i+1])), 2
	}
	if ex.Branch(inRange(b0, 0xE0, 0xEF)) {
		lo, hi := byte(0x80), byte(0xBF)
		if ex.Branch(ts.Eq(b0, Const(8, 0xE0))) {
			lo = 0xA0
		} else if ex.Branch(ts.Eq(b0, Const(8, 0xED))) {
			hi = 0x9F
		}
		if !cont(1, lo, hi) || !cont(2, 0x80, 0xBF) {
			return bad, 1
		}
		return or(or(shl(z32(ts.Bin(OpAnd, b0, Const(8, 0x0f))), 12), shl(low6(b[i+1]), 6)), low6(b[i+2])), 3
	}
	if ex.Branch(inRange(b0, 0xF0, 0xF4)) {
		lo, hi := byte(0x80), byte(0xBF)
		if ex.Branch(ts.Eq(b0, Const(8, 0xF0))) {
			lo = 0x90
		} else if ex.Branch(ts.Eq(b0, Const(8, 0xF4))) {
			hi = 0x8F
		}
		if !cont(1, lo, hi) || !cont(2, 0x80, 0xBF) || !cont(3, 0x80, 0xBF) {
			return bad, 1
		}
		return or(or(or(shl(z32(ts.Bin(OpAnd, b0, Const(8, 0x07))), 18), shl(low6(b[i+1]), 12)), shl(low6(b[i+2]), 6)), low6(b[i+3])), 4
	}
	return bad, 1
}

// encodeRune gives the UTF-8 bytes of a rune term (forking on its size class).
func (ip *Interp) encodeRune(r *Term) []*Term {
	ts := ip.ts
	ex := ip.ex
	if r.IsConst() {
		return constBytes(string(rune(int32(r.k))))
	}
	r = ts.ZExt(r, 32)
	if r.w != 32 {
		r = ts.Extract(r, 31, 0)
	}
	lt := func(v uint64) bool { return ex.Branch(ts.Cmp(OpUlt, r, Const(32, v))) }
	b8 := func(t *Term) *Term { return ts.Extract(t, 7, 0) }
	shr := func(n uint64) *Term { return ts.Bin(OpLShr, r, Const(32, n)) }
	cont := func(t *Term) *Term {
		return ts.Bin(OpOr, ts.Bin(OpAnd, b8(t), Const(8, 0x3f)), Const(8, 0x80))
	}
	if lt(0x80) {
		return []*Term{b8(r)}
	}
	if lt(0x800) {
		return []*Term{ts.Bin(OpOr, b8(shr(6)), Const(8, 0xC0)), cont(r)}
	}
	// surrogates and out of range -> RuneError
	if ex.Branch(ts.BOr(ts.Cmp(OpUlt, Const(32, 0x10FFFF), r), ts.BAnd(ts.Cmp(OpUle, Const(32, 0xD800), r), ts.Cmp(OpUle, r, Const(32, 0xDFFF))))) {
		return constBytes("�")
	}
	if lt(0x10000) {
		return []*Term{ts.Bin(OpOr, b8(shr(12)), Const(8, 0xE0)), cont(shr(6)), cont(r)}
	}
	return []*Term{ts.Bin(OpOr, b8(shr(18)), Const(8, 0xF0)), cont(shr(12)), cont(shr(6)), cont(r)}
}

func allASCIIConst(b []*Term) bool {
	for _, t := range b {
		if !t.IsConst() {
			return false
		}
	}
	return true
}

// goString returns the concrete Go string if v is concrete.
func goString(v Value) (string, bool) {
	s, ok := v.(string)
	return s, ok
}
