package main

// gosymex selftest: validates engine components against the toolchain's own
// implementations before any check relies on them (run by MANIFEST.setup_cmd).

import (
	"fmt"
	"math"
	"math/rand"
	"os"
	"regexp"
	"strconv"
	"unicode"
	"unicode/utf8"
)

func cmdSelftest() {
	fails := 0
	fail := func(f string, a ...interface{}) {
		fails++
		if fails < 20 {
			fmt.Printf("selftest FAIL: "+f+"\n", a...)
		}
	}
	ts := NewTermStore()
	// 1. solver round trip incl. floating point and model extraction
	solver, err := NewSolver("z3", ts, 10000)
	if err != nil {
		fmt.Println("selftest: cannot start z3:", err)
		os.Exit(1)
	}
	x := ts.Var("x", 64)
	solver.Assert(ts.FCmp(OpFLt, Const(64, math.Float64bits(1.5)), x))
	solver.Assert(ts.FCmp(OpFLt, x, Const(64, math.Float64bits(1.75))))
	solver.Assert(ts.Eq(ts.F32to64(ts.F64to32(x)), x))
	r, m := solver.Check()
	if r != Sat {
		fail("FP query: %v", r)
	} else if f := math.Float64frombits(m[x.id]); !(f > 1.5 && f < 1.75 && float64(float32(f)) == f) {
		fail("FP model %v violates the constraints", f)
	}
	solver.Assert(ts.FIsNaN(x))
	if r, _ := solver.Check(); r != Unsat {
		fail("FP unsat query: %v", r)
	}
	solver.Close()
	// 2. constant folding == evaluation == Go semantics for integer operators
	rng := rand.New(rand.NewSource(1))
	ops := []Op{OpAdd, OpSub, OpMul, OpUDiv, OpURem, OpSDiv, OpSRem, OpAnd, OpOr, OpXor, OpShl, OpLShr, OpAShr}
	for i := 0; i < 20000; i++ {
		w := []int{8, 16, 32, 64}[rng.Intn(4)]
		a, b := rng.Uint64()&mask(uint8(w)), rng.Uint64()&mask(uint8(w))
		if rng.Intn(4) == 0 {
			b = uint64(rng.Intn(70))
		}
		op := ops[rng.Intn(len(ops))]
		va, vb := ts.Var(fmt.Sprintf("a%d", w), w), ts.Var(fmt.Sprintf("b%d", w), w)
		sym := ts.Bin(op, va, vb)
		got := Eval(sym, Model{va.id: a, vb.id: b})
		want := ts.Bin(op, Const(w, a), Const(w, b)).k
		if got != want {
			fail("op %d width %d: eval %d != fold %d", op, w, got, want)
		}
		if w == 64 && b != 0 {
			var g uint64
			switch op {
			case OpAdd:
				g = a + b
			case OpMul:
				g = a * b
			case OpUDiv:
				g = a / b
			case OpSRem:
				if int64(b) != -1 {
					g = uint64(int64(a) % int64(b))
				} else {
					continue
				}
			case OpAShr:
				if b < 64 {
					g = uint64(int64(a) >> b)
				} else {
					continue
				}
			default:
				continue
			}
			if g != want {
				fail("op %d: fold %d != Go %d", op, want, g)
			}
		}
	}
	// 3. extract/concat/zext simplifications agree with evaluation
	for i := 0; i < 5000; i++ {
		v := ts.Var("e64", 64)
		val := rng.Uint64()
		hi := rng.Intn(64)
		lo := rng.Intn(hi + 1)
		e := ts.Extract(ts.Bin(OpLShr, v, Const(64, uint64(rng.Intn(64)))), hi, lo)
		ref := Eval(e, Model{v.id: val})
		z := ts.ZExt(e, 64)
		back := ts.Extract(z, hi-lo, 0)
		if Eval(back, Model{v.id: val}) != ref {
			fail("extract/zext simplification")
		}
		b0, b1 := ts.Extract(v, 15, 8), ts.Extract(v, 7, 0)
		u := ts.Bin(OpOr, ts.Bin(OpShl, ts.ZExt(b0, 64), Const(64, 8)), ts.ZExt(b1, 64))
		if Eval(u, Model{v.id: val}) != val&0xffff {
			fail("byte reassembly simplification")
		}
	}
	// 4. rune classes from the toolchain's tables
	classOnce.Do(initClasses)
	for _, cls := range []string{"space", "letter", "digit", "upper", "lower"} {
		f := classFn(cls)
		in := map[rune]bool{}
		for _, rg := range classRanges[cls] {
			for c := rg[0]; c <= rg[1] && c < 0x30000; c++ {
				in[rune(c)] = true
			}
		}
		for c := rune(0); c < 0x30000; c++ {
			if f(c) != in[c] {
				fail("class %s rune %U", cls, c)
				break
			}
		}
	}
	// 5. the interpreter-side models on concrete data: regexp simulation, UTF-8 decoding,
	// number formatting
	ex := NewExec(ts, nil, nil)
	ex.maxFuel, ex.fuel = 1<<40, 1<<40
	ip := &Interp{ts: ts, ex: ex}
	pats := []string{`^[A-Za-z_]\w*(\[\d+\])*$`, `^\.{3}(\[\d+\])?$`, `^[Ss]\d+[Ff]\d+`, `^([Ww]|\[[Ww]\])`, `^[Hh](->|<->|<-)[Ee]`,
		`^\.\.\.(\[\d+\])?`, `^[A-Za-z_]\w*`, `^(\[\d+\])+`, `a+b*|c`, `(?i)x[yz]$`, `^$`, `\bw\b`}
	corpus := []string{"", "a", "abc[1][22]", "_x9", "9x", "...", "...[12]", "...[", "S12F34 W", "s1f", "W", "[w]", "[W", "H->E", "h<->e", "H<-", "x[1]y",
		"aab", "c", "xZ", "xy\n", "é", "a\xffb", "[1][2]x", " w ", "w", "ww", " ", "S1F1 "}
	for i := 0; i < 300; i++ {
		n := rng.Intn(6)
		b := make([]byte, n)
		for j := range b {
			alphabet := "aSsFf1W[]w.H-><Ee_\n\xc3\xa9 "
			b[j] = alphabet[rng.Intn(len(alphabet))]
		}
		corpus = append(corpus, string(b))
	}
	for _, p := range pats {
		reObj, err := compileRegexp(p)
		if err != nil {
			fail("pattern %q: %v", p, err)
			continue
		}
		cre := reObj.obj.(*compiledRe)
		real := regexp.MustCompile(p)
		for _, s := range corpus {
			got := ip.regexFind(cre, constBytes(s))
			want := real.FindStringIndex(s)
			if (got == nil) != (want == nil) || (got != nil && (got[0] != want[0] || got[1] != want[1])) {
				fail("regexp %q on %q: model %v, regexp package %v", p, s, got, want)
			}
		}
	}
	for _, s := range corpus {
		b := constBytes(s)
		for i := 0; i < len(b); {
			r, w := ip.decodeRune(b, i)
			rr, ww := utf8.DecodeRuneInString(s[i:])
			if rune(int32(r.k)) != rr || w != ww {
				fail("decodeRune %q at %d", s, i)
			}
			i += w
		}
	}
	for c := rune(0); c < 0x11000; c += 7 {
		if string(c) != mustStr(mkStr(ip.encodeRune(Const(32, uint64(c))))) {
			fail("encodeRune %U", c)
		}
	}
	for i := 0; i < 2000; i++ {
		v := rng.Uint64() >> uint(rng.Intn(64))
		base := []int{2, 10, 16}[rng.Intn(3)]
		if mustStr(numSeg(Const(64, v), base, false, 0, false)) != strconv.FormatUint(v, base) {
			fail("numSeg unsigned %d base %d", v, base)
		}
		if mustStr(numSeg(Const(64, v), 10, true, 0, false)) != strconv.FormatInt(int64(v), 10) {
			fail("numSeg signed %d", int64(v))
		}
	}
	_ = unicode.MaxRune
	if fails > 0 {
		fmt.Printf("selftest: %d failures\n", fails)
		os.Exit(1)
	}
	fmt.Println("selftest: ok (solver FP round trip, 20000 operator folds, simplifier, rune classes, regexp/UTF-8/number models on concrete data)")
}

func mustStr(v Value) string {
	s, _ := v.(string)
	return s
}
