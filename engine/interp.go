package main

// Symbolic interpreter for go/ssa (structure follows x/tools go/ssa/interp).

import (
	"fmt"
	"go/token"
	"go/types"
	"slices"
	"strings"
	"sync"

	"golang.org/x/tools/go/ssa"
)

type Interp struct {
	prog    *ssa.Program
	ts      *TermStore
	ex      *Exec
	globals map[*ssa.Global]*Value
	sizes   types.Sizes

	repoPrefix string
	rtPath     string
	fnCount    map[*ssa.Function]int64
	nextMapID  int
	curFrame   *frame

	// ghost monitors
	alloc        allocMon
	monitorOn    bool
	old          map[*Value]bool
	oldMaps      map[*MapV]bool
	sharedWrites []string
	freshN       int
	lockDepth    int
	syncMaps     map[*Value]*MapV
	syncPools    map[*Value][]Value
	poolForks    int
	maxDepth     int
	syncWrites   int
	mapOrder     int // 0 insertion order, 1 reversed
	errRange     Value
	errSyntax    Value
	seeded       map[string]Value
}

type deferred struct {
	fn    Value
	args  []Value
	instr *ssa.Defer
	tail  *deferred
}

type frame struct {
	ip               *Interp
	caller           *frame
	fn               *ssa.Function
	block, prevBlock *ssa.BasicBlock
	env              []Value
	lay              *fnLayout
	locals           []Value
	defers           *deferred
	result           Value
	panicking        bool
	panicVal         interface{}
	phitemps         []Value
	depth            int
}

func (fr *frame) get(key ssa.Value) Value {
	switch key := key.(type) {
	case nil:
		return nil
	case *ssa.Function, *ssa.Builtin:
		return key
	case *ssa.Const:
		if v, ok := constCache.Load(key); ok {
			return v
		}
		v := constValue(key)
		constCache.Store(key, v)
		return v
	case *ssa.Global:
		if r, ok := fr.ip.globals[key]; ok {
			return r
		}
		return fr.ip.globalCell(key)
	}
	if i, ok := fr.lay.idx[key]; ok {
		if r := fr.env[i]; r != nil || true {
			return r
		}
	}
	panic(fmt.Sprintf("get: no value for %T: %v in %s", key, key.Name(), fr.fn))
}

func (fr *frame) set(key ssa.Value, v Value) { fr.env[fr.lay.idx[key]] = v }

type fnLayout struct {
	idx map[ssa.Value]int
	n   int
}

var layoutCache sync.Map // *ssa.Function -> *fnLayout
var constCache sync.Map  // *ssa.Const -> Value

func layoutOf(fn *ssa.Function) *fnLayout {
	if v, ok := layoutCache.Load(fn); ok {
		return v.(*fnLayout)
	}
	l := &fnLayout{idx: map[ssa.Value]int{}}
	add := func(v ssa.Value) {
		if _, ok := l.idx[v]; !ok {
			l.idx[v] = l.n
			l.n++
		}
	}
	for _, p := range fn.Params {
		add(p)
	}
	for _, fv := range fn.FreeVars {
		add(fv)
	}
	for _, loc := range fn.Locals {
		add(loc)
	}
	for _, b := range fn.Blocks {
		for _, in := range b.Instrs {
			if v, ok := in.(ssa.Value); ok {
				add(v)
			}
		}
	}
	layoutCache.Store(fn, l)
	return l
}

func (ip *Interp) globalCell(g *ssa.Global) *Value {
	if r, ok := ip.globals[g]; ok {
		return r
	}
	cell := new(Value)
	if v, ok := ip.seeded[g.Pkg.Pkg.Path()+"."+g.Name()]; ok {
		*cell = v
	} else if g.Pkg.Pkg.Path() == "unicode" && hostRangeTable(g.Name()) != nil {
		// the tables of package unicode are read from the toolchain's own unicode package
		*cell = &NativeObj{kind: "rangetable", obj: g.Name()}
	} else {
		*cell = zero(deref(g.Type()))
		if st, isStruct := (*cell).(Struct); isStruct && len(st) == 0 {
			// zero-size global (e.g. encoding/binary.BigEndian): nothing to initialise
		} else if !strings.HasPrefix(g.Pkg.Pkg.Path(), ip.repoPrefix) {
			ip.ex.note("uninitialised stdlib global read: " + g.Pkg.Pkg.Path() + "." + g.Name())
		}
	}
	ip.globals[g] = cell
	return cell
}

func (ip *Interp) throw(msg string) {
	panic(targetPanic{Iface{t: runtimeErrorType, v: runtimeError{"runtime error: " + msg}}})
}

var runtimeErrorType = types.NewNamed(types.NewTypeName(token.NoPos, nil, "runtime.Error", nil), types.NewStruct(nil, nil), nil)

func (fr *frame) runDefer(d *deferred) {
	var ok bool
	defer func() {
		if !ok {
			r := recover()
			if _, isEnd := r.(pathEnd); isEnd {
				panic(r)
			}
			if _, isTP := r.(targetPanic); !isTP {
				panic(r) // engine bug: do not convert into a target panic
			}
			fr.panicking = true
			fr.panicVal = r
		}
	}()
	fr.ip.call(fr, d.instr.Pos(), d.fn, d.args)
	ok = true
}

func (fr *frame) runDefers() {
	for d := fr.defers; d != nil; d = d.tail {
		fr.runDefer(d)
	}
	fr.defers = nil
	if fr.panicking {
		panic(fr.panicVal)
	}
}

func (ip *Interp) lookupMethod(typ types.Type, meth *types.Func) *ssa.Function {
	return ip.prog.LookupMethod(typ, meth.Pkg(), meth.Name())
}

func (ip *Interp) tick(n int64) {
	ip.ex.fuel -= n
	ip.ex.stats.Instrs += n
	if ip.ex.fuel < 0 {
		ip.ex.endPath("fuel", "instruction budget exhausted")
	}
}

func (fr *frame) visitInstr(instr ssa.Instruction) (ret bool) {
	ip := fr.ip
	switch instr := instr.(type) {
	case *ssa.DebugRef:
	case *ssa.UnOp:
		if le, ok := fr.get(instr.X).(lazyElem); ok {
			fr.set(instr, le.t) // the load that directly follows a table lookup with a symbolic index
			break
		}
		fr.set(instr, ip.unop(instr, fr.get(instr.X)))
	case *ssa.BinOp:
		fr.set(instr, ip.binop(instr.Op, instr.X.Type(), fr.get(instr.X), fr.get(instr.Y)))
	case *ssa.Call:
		fn, args := fr.prepareCall(&instr.Call)
		fr.set(instr, ip.call(fr, instr.Pos(), fn, args))
	case *ssa.ChangeInterface:
		fr.set(instr, fr.get(instr.X))
	case *ssa.ChangeType:
		fr.set(instr, fr.get(instr.X))
	case *ssa.Convert:
		fr.set(instr, ip.conv(instr.Type(), instr.X.Type(), fr.get(instr.X)))
	case *ssa.MakeInterface:
		fr.set(instr, Iface{t: instr.X.Type(), v: fr.get(instr.X)})
	case *ssa.Extract:
		fr.set(instr, fr.get(instr.Tuple).(Tuple)[instr.Index])
	case *ssa.Slice:
		fr.set(instr, ip.sliceOp(instr, fr.get(instr.X), fr.get(instr.Low), fr.get(instr.High), fr.get(instr.Max)))
	case *ssa.Return:
		switch len(instr.Results) {
		case 0:
		case 1:
			fr.result = fr.get(instr.Results[0])
		default:
			res := make(Tuple, 0, len(instr.Results))
			for _, r := range instr.Results {
				res = append(res, fr.get(r))
			}
			fr.result = res
		}
		fr.block = nil
		return true
	case *ssa.RunDefers:
		fr.runDefers()
	case *ssa.Panic:
		panic(targetPanic{fr.get(instr.X)})
	case *ssa.Send:
		ch := fr.get(instr.Chan).(*ChanV)
		if ch == nil {
			ip.ex.endPath("hang", "send on nil channel")
		}
		if ch.closed {
			panic(targetPanic{Iface{t: runtimeErrorType, v: runtimeError{"send on closed channel"}}})
		}
		if len(ch.buf) >= ch.cap {
			ip.ex.endPath("hang", "send on full channel with no receiver (deadlock)")
		}
		ch.buf = append(ch.buf, copyVal(fr.get(instr.X)))
	case *ssa.Store:
		ip.store(fr.get(instr.Addr), fr.get(instr.Val), instr)
	case *ssa.If:
		succ := 1
		if ip.ex.Branch(asTerm(fr.get(instr.Cond))) {
			succ = 0
		}
		fr.prevBlock, fr.block = fr.block, fr.block.Succs[succ]
	case *ssa.Jump:
		fr.prevBlock, fr.block = fr.block, fr.block.Succs[0]
	case *ssa.Defer:
		fn, args := fr.prepareCall(&instr.Call)
		fr.defers = &deferred{fn: fn, args: args, instr: instr, tail: fr.defers}
	case *ssa.Go:
		ip.ex.endPath("unsupported", "go statement at "+ip.prog.Fset.Position(instr.Pos()).String())
	case *ssa.MakeChan:
		n := ip.concInt(fr.get(instr.Size), "chan size")
		fr.set(instr, &ChanV{cap: int(n)})
	case *ssa.Alloc:
		var addr *Value
		if instr.Heap {
			addr = new(Value)
			fr.set(instr, addr)
			ip.noteFixedAlloc()
		} else {
			addr = fr.env[fr.lay.idx[instr]].(*Value)
		}
		*addr = zero(deref(instr.Type()))
	case *ssa.MakeSlice:
		fr.set(instr, ip.makeSlice(instr, fr.get(instr.Len), fr.get(instr.Cap)))
	case *ssa.MakeMap:
		ip.noteFixedAlloc()
		ip.nextMapID++
		fr.set(instr, &MapV{kt: instr.Type().Underlying().(*types.Map).Key(), id: ip.nextMapID})
	case *ssa.Range:
		fr.set(instr, ip.rangeIter(fr.get(instr.X), instr.X.Type()))
	case *ssa.Next:
		fr.set(instr, ip.iterNext(fr.get(instr.Iter)))
	case *ssa.FieldAddr:
		p := fr.get(instr.X).(*Value)
		if p == nil {
			ip.throw("invalid memory address or nil pointer dereference")
		}
		fr.set(instr, &(*p).(Struct)[instr.Field])
	case *ssa.Field:
		fr.set(instr, fr.get(instr.X).(Struct)[instr.Field])
	case *ssa.IndexAddr:
		x := fr.get(instr.X)
		if le, ok := ip.lazyTableRead(fr, instr, x); ok {
			fr.set(instr, le)
			break
		}
		switch x := x.(type) {
		case Slice:
			i := ip.indexCheck(fr.get(instr.Index), instr.Index.Type(), len(x.s))
			fr.set(instr, &x.s[i])
		case *Value:
			if x == nil {
				ip.throw("invalid memory address or nil pointer dereference")
			}
			a := (*x).(Array)
			i := ip.indexCheck(fr.get(instr.Index), instr.Index.Type(), len(a))
			fr.set(instr, &a[i])
		default:
			panic(fmt.Sprintf("unexpected x type in IndexAddr: %T", x))
		}
	case *ssa.Index:
		x := fr.get(instr.X)
		switch x := x.(type) {
		case Array:
			i := ip.indexCheck(fr.get(instr.Index), instr.Index.Type(), len(x))
			fr.set(instr, copyVal(x[i]))
		case string:
			i := ip.indexCheck(fr.get(instr.Index), instr.Index.Type(), len(x))
			fr.set(instr, byteConst[x[i]])
		case *SymStr:
			b := ip.strBytes(x)
			i := ip.indexCheck(fr.get(instr.Index), instr.Index.Type(), len(b))
			fr.set(instr, b[i])
		default:
			panic(fmt.Sprintf("unexpected x type in Index: %T", x))
		}
	case *ssa.Lookup:
		fr.set(instr, ip.lookup(instr, fr.get(instr.X), fr.get(instr.Index)))
	case *ssa.MapUpdate:
		m := fr.get(instr.Map).(*MapV)
		if m == nil {
			panic(targetPanic{Iface{t: runtimeErrorType, v: runtimeError{"assignment to entry in nil map"}}})
		}
		ip.mapSet(m, fr.get(instr.Key), fr.get(instr.Value))
	case *ssa.TypeAssert:
		fr.set(instr, ip.typeAssert(instr, fr.get(instr.X).(Iface)))
	case *ssa.MakeClosure:
		var bindings []Value
		for _, b := range instr.Bindings {
			bindings = append(bindings, fr.get(b))
		}
		ip.noteFixedAlloc()
		fr.set(instr, &Closure{instr.Fn.(*ssa.Function), bindings})
	case *ssa.Select:
		fr.set(instr, ip.selectOp(fr, instr))
	default:
		panic(fmt.Sprintf("unexpected instruction: %T", instr))
	}
	return false
}

func (ip *Interp) selectOp(fr *frame, instr *ssa.Select) Value {
	chosen := -1
	var recv Value
	recvOk := false
	for i, st := range instr.States {
		ch := fr.get(st.Chan).(*ChanV)
		if st.Dir == types.RecvOnly {
			if ch == nil {
				continue
			}
			if len(ch.buf) > 0 {
				chosen, recv, recvOk = i, ch.buf[0], true
				ch.buf = ch.buf[1:]
				break
			}
			if ch.closed {
				chosen, recvOk = i, false
				break
			}
		} else {
			if ch == nil {
				continue
			}
			if ch.closed {
				panic(targetPanic{Iface{t: runtimeErrorType, v: runtimeError{"send on closed channel"}}})
			}
			if len(ch.buf) < ch.cap {
				ch.buf = append(ch.buf, copyVal(fr.get(st.Send)))
				chosen = i
				break
			}
		}
	}
	if chosen < 0 && instr.Blocking {
		ip.ex.endPath("hang", "select blocks forever (single goroutine)")
	}
	r := Tuple{Const(64, uint64(int64(chosen))), Bool(recvOk)}
	for i, st := range instr.States {
		if st.Dir == types.RecvOnly {
			var v Value
			if i == chosen && recvOk {
				v = recv
			} else {
				v = zero(st.Chan.Type().Underlying().(*types.Chan).Elem())
			}
			r = append(r, v)
		}
	}
	return r
}

func (fr *frame) prepareCall(call *ssa.CallCommon) (fn Value, args []Value) {
	v := fr.get(call.Value)
	if call.Method == nil {
		fn = v
	} else {
		recv := v.(Iface)
		if recv.t == nil {
			fr.ip.throw("invalid memory address or nil pointer dereference")
		}
		if recv.t == runtimeErrorType {
			fn = &runtimeErrMethod{call.Method.Name()}
		} else if f := fr.ip.lookupMethod(recv.t, call.Method); f == nil {
			panic(fmt.Sprintf("method set for dynamic type %v does not contain %s", recv.t, call.Method))
		} else {
			fn = f
		}
		args = append(args, recv.v)
	}
	for _, arg := range call.Args {
		args = append(args, fr.get(arg))
	}
	return
}

type runtimeErrMethod struct{ name string }

func (ip *Interp) call(caller *frame, pos token.Pos, fn Value, args []Value) Value {
	switch fn := fn.(type) {
	case *ssa.Function:
		if fn == nil {
			ip.throw("invalid memory address or nil pointer dereference")
		}
		return ip.callSSA(caller, pos, fn, args, nil)
	case *Closure:
		return ip.callSSA(caller, pos, fn.fn, args, fn.env)
	case *ssa.Builtin:
		return ip.callBuiltin(caller, pos, fn, args)
	case *runtimeErrMethod:
		re := args[0].(runtimeError)
		switch fn.name {
		case "Error":
			return re.msg
		}
		panic("runtime.Error method " + fn.name)
	}
	panic(fmt.Sprintf("cannot call %T", fn))
}

func (ip *Interp) callSSA(caller *frame, pos token.Pos, fn *ssa.Function, args []Value, env []Value) Value {
	depth := 0
	if caller != nil {
		depth = caller.depth + 1
	}
	if depth > ip.maxDepth {
		ip.ex.endPath("fuel", "call depth budget exhausted")
	}
	if caller != nil && fn.Synthetic == "package initializer" {
		return nil // initialisers of imported packages are not run (stdlib globals are pre-seeded)
	}
	fr := &frame{ip: ip, caller: caller, fn: fn, depth: depth}
	ip.fnCount[fn]++
	if fn.Parent() == nil {
		info := lookupFnInfo(fn, ip)
		if info.intr != nil {
			ip.tick(1)
			return info.intr(ip, fr, args)
		}
		if fn.Blocks == nil {
			ip.ex.endPath("unsupported", "no code and no model for function "+fn.String())
		}
		if !info.interpretable {
			ip.ex.endPath("unsupported", "call into unmodelled package function "+fn.String())
		}
	}
	fr.lay = layoutOf(fn)
	fr.env = make([]Value, fr.lay.n)
	fr.block = fn.Blocks[0]
	fr.locals = make([]Value, len(fn.Locals))
	for i, l := range fn.Locals {
		fr.locals[i] = zero(deref(l.Type()))
		fr.set(l, &fr.locals[i])
	}
	for i, p := range fn.Params {
		fr.set(p, args[i])
	}
	for i, fv := range fn.FreeVars {
		fr.set(fv, env[i])
	}
	for fr.block != nil {
		fr.runFrame()
	}
	return fr.result
}

type fnInfo struct {
	intr          intrinsic
	interpretable bool
}

var fnInfoCache sync.Map // *ssa.Function -> *fnInfo

func lookupFnInfo(fn *ssa.Function, ip *Interp) *fnInfo {
	if v, ok := fnInfoCache.Load(fn); ok {
		return v.(*fnInfo)
	}
	info := &fnInfo{interpretable: true}
	if intr, ok := intrinsics[fn.String()]; ok {
		info.intr = intr
	}
	if fn.Pkg != nil && !ip.interpretable(fn.Pkg.Pkg.Path()) {
		info.interpretable = false
	}
	fnInfoCache.Store(fn, info)
	return info
}

func (ip *Interp) interpretable(path string) bool {
	if strings.HasPrefix(path, ip.repoPrefix) {
		return true
	}
	switch path {
	case "strconv", "strings", "encoding/binary", "errors", "unicode/utf8", "sort", "internal/stringslite", "math", "math/bits", "unicode", "internal/bytealg", "bytes", "slices", "cmp", "sync/atomic":
		return true
	}
	return false
}

func (fr *frame) runFrame() {
	defer func() {
		if fr.block == nil {
			return
		}
		r := recover()
		if _, ok := r.(targetPanic); !ok {
			panic(r) // pathEnd or engine bug: propagate untouched
		}
		fr.panicking = true
		fr.panicVal = r
		fr.runDefers()
		fr.block = fr.fn.Recover
		if fr.block == nil {
			// recovered in a function without a recover block: return zero results
			fr.result = zeroResults(fr.fn)
		}
	}()
	ip := fr.ip
	for {
		nonPhis := fr.executePhis()
		ip.tick(int64(len(nonPhis)))
		for _, instr := range nonPhis {
			if fr.visitInstr(instr) {
				return
			}
		}
	}
}

func zeroResults(fn *ssa.Function) Value {
	res := fn.Signature.Results()
	switch res.Len() {
	case 0:
		return nil
	case 1:
		return zero(res.At(0).Type())
	}
	t := make(Tuple, res.Len())
	for i := range t {
		t[i] = zero(res.At(i).Type())
	}
	return t
}

func (fr *frame) executePhis() []ssa.Instruction {
	firstNonPhi := -1
	for i, instr := range fr.block.Instrs {
		if _, ok := instr.(*ssa.Phi); !ok {
			firstNonPhi = i
			break
		}
	}
	nonPhis := fr.block.Instrs[firstNonPhi:]
	if firstNonPhi > 0 {
		phis := fr.block.Instrs[:firstNonPhi]
		predIndex := slices.Index(fr.block.Preds, fr.prevBlock)
		fr.phitemps = fr.phitemps[:0]
		for _, phi := range phis {
			fr.phitemps = append(fr.phitemps, fr.get(phi.(*ssa.Phi).Edges[predIndex]))
		}
		for i, phi := range phis {
			fr.set(phi.(*ssa.Phi), fr.phitemps[i])
		}
	}
	return nonPhis
}

func (ip *Interp) doRecover(caller *frame) Value {
	if caller != nil && !caller.panicking && caller.caller != nil && caller.caller.panicking {
		caller.caller.panicking = false
		p := caller.caller.panicVal
		caller.caller.panicVal = nil
		if tp, ok := p.(targetPanic); ok {
			return tp.v
		}
		panic(fmt.Sprintf("unexpected panic type %T in target call to recover()", p))
	}
	return Iface{}
}

// ---- memory ----

func (ip *Interp) store(addr Value, v Value, instr ssa.Instruction) {
	p := addr.(*Value)
	if p == nil {
		ip.throw("invalid memory address or nil pointer dereference")
	}
	if ip.monitorOn {
		ip.noteWrite(p, instr)
	}
	*p = copyVal(v)
}

func (ip *Interp) load(addr Value) Value {
	p := addr.(*Value)
	if p == nil {
		ip.throw("invalid memory address or nil pointer dereference")
	}
	return copyVal(*p)
}

// concInt concretises an integer value.
func (ip *Interp) concInt(v Value, what string) int64 {
	t := asTerm(v)
	if t.IsConst() {
		return t.ConstInt()
	}
	x := ip.ex.Concretize(t, what)
	return sext(x, t.w)
}

// lazyElem is the value of an IndexAddr whose only use is the load that follows it directly,
// when the index is symbolic and every element is a constant: the load yields an if-then-else
// term over the table's distinct values instead of one path per index value.
type lazyElem struct{ t *Term }

func (ip *Interp) lazyTableRead(fr *frame, instr *ssa.IndexAddr, x Value) (lazyElem, bool) {
	idx, ok := fr.get(instr.Index).(*Term)
	if !ok || idx.IsConst() {
		return lazyElem{}, false
	}
	refs := instr.Referrers()
	if refs == nil || len(*refs) != 1 {
		return lazyElem{}, false
	}
	ld, ok := (*refs)[0].(*ssa.UnOp)
	if !ok || ld.Op != token.MUL || ld.Block() != instr.Block() {
		return lazyElem{}, false
	}
	for i, in := range instr.Block().Instrs {
		if in == instr {
			if i+1 >= len(instr.Block().Instrs) || instr.Block().Instrs[i+1] != ld {
				return lazyElem{}, false
			}
		}
	}
	var elems []Value
	switch x := x.(type) {
	case Slice:
		elems = x.s
	case *Value:
		if x == nil {
			return lazyElem{}, false
		}
		a, ok := (*x).(Array)
		if !ok {
			return lazyElem{}, false
		}
		elems = a
	default:
		return lazyElem{}, false
	}
	if len(elems) < 2 || len(elems) > 4096 {
		return lazyElem{}, false
	}
	count := map[uint64]int{}
	var w uint8
	for i, e := range elems {
		t, ok := e.(*Term)
		if !ok || !t.IsConst() || (i > 0 && t.w != w) {
			return lazyElem{}, false
		}
		w = t.w
		count[t.k]++
	}
	if len(count) > 64 {
		return lazyElem{}, false
	}
	// bounds check as in indexCheck (a decision), without concretising the index
	n := len(elems)
	_, signed, _, _ := basicInfo(instr.Index.Type())
	if !(idx.w < 63 && !signed && uint64(n) >= uint64(1)<<idx.w) {
		inb := ip.ts.Cmp(OpUlt, idx, Const(int(idx.w), uint64(n)))
		if idx.w < 63 && uint64(n) >= uint64(1)<<idx.w {
			inb = ip.ts.BNot(ip.ts.Cmp(OpSlt, idx, Const(int(idx.w), 0)))
		}
		if !ip.ex.Branch(inb) {
			ip.throw(fmt.Sprintf("index out of range [symbolic] with length %d", n))
		}
	}
	def, best := uint64(0), -1
	for k, c := range count {
		if c > best || (c == best && k < def) {
			def, best = k, c
		}
	}
	res := Const(int(w), def)
	for i := len(elems) - 1; i >= 0; i-- {
		if k := elems[i].(*Term).k; k != def {
			res = ip.ts.Ite(ip.ts.Eq(idx, Const(int(idx.w), uint64(i))), Const(int(w), k), res)
		}
	}
	return lazyElem{res}, true
}

// indexCheck performs the bounds check (forking on failure) and concretises the index.
func (ip *Interp) indexCheck(idx Value, it types.Type, n int) int {
	t := asTerm(idx)
	_, signed, _, _ := basicInfo(it)
	if t.IsConst() {
		var i int64
		if signed {
			i = t.ConstInt()
		} else {
			if t.k > 1<<62 {
				i = -1
			} else {
				i = int64(t.k)
			}
		}
		if i < 0 || i >= int64(n) {
			ip.throw(fmt.Sprintf("index out of range [%d] with length %d", i, n))
		}
		return int(i)
	}
	if t.w < 63 && !signed && uint64(n) >= uint64(1)<<t.w {
		// every value of the index type is in range (a byte indexing a [256]T array)
		return int(ip.ex.Concretize(t, "index"))
	}
	inb := ip.ts.Cmp(OpUlt, t, Const(int(t.w), uint64(n)))
	if t.w < 63 && uint64(n) >= uint64(1)<<t.w {
		// signed narrow index: in range iff non-negative
		inb = ip.ts.BNot(ip.ts.Cmp(OpSlt, t, Const(int(t.w), 0)))
	}
	if n == 0 || !ip.ex.Branch(inb) {
		ip.throw(fmt.Sprintf("index out of range [symbolic] with length %d", n))
	}
	return int(ip.ex.Concretize(t, "index"))
}
