package main

// Ghost monitors: allocation requests and the write-set since an epoch.

import (
	"fmt"
	"strings"
	"sync"

	"golang.org/x/tools/go/ssa"
)

var growCacheMu sync.Mutex

type allocMon struct {
	active    bool
	label     string
	threshold *Term // bytes; request sizes above it are candidate violations
	total     *Term // running sum of requested bytes (symbolic part + constants)
	count     int
	fixed     int
	maxConst  int
}

func (ip *Interp) noteAllocConst(site string, n int) {
	m := &ip.alloc
	if !m.active {
		return
	}
	m.count++
	if n > m.maxConst {
		m.maxConst = n
	}
	m.total = ip.ts.Bin(OpAdd, m.total, Const(64, uint64(n)))
}

// noteAlloc records a variable-size request whose size is a term.  With the monitor
// active the request is checked against the threshold as an assertion; the path then
// continues under the assumption that the size is within it.
func (ip *Interp) noteAlloc(site string, size *Term) {
	m := &ip.alloc
	if !m.active {
		return
	}
	m.count++
	if size.IsConst() {
		ip.noteAllocConst(site, int(size.k))
		return
	}
	ip.ex.observed = append(ip.ex.observed, "alloc-request "+site)
	// prefer a moderate witness (threshold < size <= 64*threshold) that the native replay can
	// measure without exhausting memory; then require the bound for all remaining sizes
	ts := ip.ts
	if m.threshold.IsConst() && m.threshold.k < 1<<56 {
		moderate := ts.BAnd(ts.Cmp(OpUlt, m.threshold, size), ts.Cmp(OpUle, size, Const(64, m.threshold.k*64)))
		ip.ex.Assert(ts.BNot(moderate), m.label)
	}
	ip.ex.Assert(ts.Cmp(OpUle, size, m.threshold), m.label)
	m.total = ip.ts.Bin(OpAdd, m.total, size)
}

// noteFixedAlloc counts a fixed-size heap allocation instruction (new, map, closure) as a
// ghost unit of 48 bytes.  Whether it exists at run time is the compiler's escape analysis'
// business, so this only feeds the growth-candidate finder; native TotalAlloc decides.
func (ip *Interp) noteFixedAlloc() {
	if ip.alloc.active {
		ip.alloc.fixed++
		ip.alloc.total = ip.ts.Bin(OpAdd, ip.alloc.total, Const(64, 48))
	}
}

func (ip *Interp) approxLen(v Value) int {
	switch v := v.(type) {
	case string:
		return len(v)
	case *SymStr:
		n := 0
		for _, g := range v.segs {
			switch g.kind {
			case segBytes:
				n += len(g.b)
			default:
				n += 8
			}
		}
		return n
	}
	return 0
}

// ---- write set ----
//
// Epoch(roots...) collects every cell reachable from the roots and from the package
// level variables of the repository ("old" cells).  A store into an old cell before
// the monitor is switched off is a shared write.

func (ip *Interp) noteAllocCells(cells ...Value) {}

func (ip *Interp) epoch(roots []Value) {
	ip.old = map[*Value]bool{}
	ip.oldMaps = map[*MapV]bool{}
	ip.sharedWrites = nil
	seen := map[interface{}]bool{}
	var walk func(v Value)
	walkCell := func(p *Value) {
		if p == nil || ip.old[p] {
			return
		}
		ip.old[p] = true
		walk(*p)
	}
	walk = func(v Value) {
		switch v := v.(type) {
		case *Value:
			walkCell(v)
		case Struct:
			for i := range v {
				walkCell(&v[i])
			}
		case Array:
			for i := range v {
				walkCell(&v[i])
			}
		case Slice:
			full := v.s[:cap(v.s)]
			for i := range full {
				walkCell(&full[i])
			}
		case Iface:
			walk(v.v)
		case *MapV:
			if v == nil || seen[v] {
				return
			}
			seen[v] = true
			ip.oldMaps[v] = true
			for _, e := range v.entries {
				walk(e.k)
				walkCell(&e.v)
			}
		case *Closure:
			if seen[v] {
				return
			}
			seen[v] = true
			for _, e := range v.env {
				walk(e)
			}
		case Tuple:
			for _, e := range v {
				walk(e)
			}
		}
	}
	for _, r := range roots {
		walk(r)
	}
	// every package-level variable of the repository is shared state
	for _, pkg := range ip.prog.AllPackages() {
		if !strings.HasPrefix(pkg.Pkg.Path(), ip.repoPrefix) || strings.Contains(pkg.Pkg.Path(), "zzverifrt") {
			continue
		}
		for _, mem := range pkg.Members {
			if g, ok := mem.(*ssa.Global); ok {
				ip.globalCell(g)
			}
		}
	}
	for _, g := range ip.globals {
		walkCell(g)
	}
	ip.monitorOn = true
}

func (ip *Interp) noteWrite(p *Value, instr ssa.Instruction) {
	if !ip.old[p] {
		return
	}
	if ip.lockDepth > 0 {
		ip.syncWrites++
		return // synchronised (mutex held or inside sync.Once.Do)
	}
	where := "?"
	if instr != nil {
		where = ip.prog.Fset.Position(instr.Pos()).String()
	}
	ip.sharedWrites = append(ip.sharedWrites, fmt.Sprintf("store to pre-existing cell at %s", where))
}

func (ip *Interp) noteMapGrow(m *MapV, e *mapEntry) {
	if !ip.oldMaps[m] {
		return
	}
	if ip.lockDepth > 0 {
		ip.syncWrites++
		return
	}
	ip.sharedWrites = append(ip.sharedWrites, "update of pre-existing map")
}
