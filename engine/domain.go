package main

// Exact finite-domain filter.  A branch condition whose support is a single variable
// of at most 16 bits is decided by evaluating it over that variable's current domain,
// provided the variable does not occur in any multi-variable constraint of the path
// (then its feasible values are exactly the domain).  Used for feasibility only.

import "math/bits"

type domain struct {
	bits []uint64 // bitset over values
	n    int      // population
}

func fullDomain(w uint8) *domain {
	size := 1 << w
	words := (size + 63) / 64
	d := &domain{bits: make([]uint64, words), n: size}
	for i := range d.bits {
		d.bits[i] = ^uint64(0)
	}
	if size < 64 {
		d.bits[0] = (uint64(1) << uint(size)) - 1
	}
	return d
}

func (d *domain) clone() *domain {
	return &domain{bits: append([]uint64(nil), d.bits...), n: d.n}
}

func (d *domain) has(v uint64) bool { return d.bits[v>>6]&(1<<(v&63)) != 0 }

func (d *domain) each(f func(v uint64) bool) {
	for i, wd := range d.bits {
		for wd != 0 {
			b := bits.TrailingZeros64(wd)
			if !f(uint64(i*64 + b)) {
				return
			}
			wd &^= 1 << uint(b)
		}
	}
}

// support returns the sorted ids of the variables a term depends on (memoised).
func (s *TermStore) support(t *Term) []int32 {
	if t == nil || t.op == OpConst {
		return nil
	}
	if t.op == OpVar {
		return []int32{t.id}
	}
	if s.supp == nil {
		s.supp = map[int32][]int32{}
	}
	if v, ok := s.supp[t.id]; ok {
		return v
	}
	out := mergeIDs(mergeIDs(s.support(t.a), s.support(t.b)), s.support(t.c))
	s.supp[t.id] = out
	return out
}

func mergeIDs(a, b []int32) []int32 {
	if len(a) == 0 {
		return b
	}
	if len(b) == 0 {
		return a
	}
	out := make([]int32, 0, len(a)+len(b))
	i, j := 0, 0
	for i < len(a) && j < len(b) {
		switch {
		case a[i] < b[j]:
			out = append(out, a[i])
			i++
		case a[i] > b[j]:
			out = append(out, b[j])
			j++
		default:
			out = append(out, a[i])
			i++
			j++
		}
	}
	out = append(out, a[i:]...)
	out = append(out, b[j:]...)
	return out
}

// fastEval evaluates a small term with a single variable bound (no memo, no allocation).
type fastEval struct {
	varID int32
	val   uint64
}

func (f *fastEval) eval(t *Term) uint64 {
	switch t.op {
	case OpConst:
		return t.k
	case OpVar:
		if t.id == f.varID {
			return f.val & maskb(t.w)
		}
		return 0
	}
	var x, y uint64
	if t.a != nil {
		x = f.eval(t.a)
	}
	if t.op == OpIte {
		if x != 0 {
			return f.eval(t.b)
		}
		return f.eval(t.c)
	}
	if t.b != nil {
		y = f.eval(t.b)
	}
	return evalOp(t, x, y)
}

// noteConstraint records an asserted condition for the domain filter.
func (ex *Exec) noteConstraint(cond *Term, dir bool) {
	sup := ex.ts.support(cond)
	if len(sup) == 0 {
		return
	}
	if len(sup) > 1 {
		for _, id := range sup {
			ex.multi[id] = true
		}
		return
	}
	v := ex.ts.byID(sup[0])
	if v == nil || v.w > 16 || v.w == 0 {
		ex.multi[sup[0]] = true
		return
	}
	if ex.termSize(cond) > 64 {
		ex.multi[sup[0]] = true
		return
	}
	d := ex.doms[v.id]
	if d == nil {
		d = fullDomain(v.w)
	} else {
		d = d.clone()
	}
	fe := &fastEval{varID: v.id}
	want := uint64(0)
	if dir {
		want = 1
	}
	d.each(func(x uint64) bool {
		fe.val = x
		if fe.eval(cond) != want {
			d.bits[x>>6] &^= 1 << (x & 63)
			d.n--
		}
		return true
	})
	ex.doms[v.id] = d
}

// domainDecide tries to decide cond exactly. ok=false means the filter does not apply.
// canTrue/canFalse report feasibility of each side; witness gives a value for each side.
func (ex *Exec) domainDecide(cond *Term) (ok, canTrue, canFalse bool, v *Term, wT, wF uint64) {
	sup := ex.ts.support(cond)
	if len(sup) != 1 || ex.multi[sup[0]] {
		return
	}
	v = ex.ts.byID(sup[0])
	if v == nil || v.w > 16 || v.w == 0 || ex.termSize(cond) > 64 {
		return false, false, false, nil, 0, 0
	}
	d := ex.doms[v.id]
	if d == nil {
		d = fullDomain(v.w)
		ex.doms[v.id] = d
	}
	fe := &fastEval{varID: v.id}
	d.each(func(x uint64) bool {
		fe.val = x
		if fe.eval(cond) != 0 {
			if !canTrue {
				canTrue, wT = true, x
			}
		} else if !canFalse {
			canFalse, wF = true, x
		}
		return !(canTrue && canFalse)
	})
	return true, canTrue, canFalse, v, wT, wF
}

func (s *TermStore) byID(id int32) *Term {
	if s.varByID == nil {
		s.varByID = map[int32]*Term{}
	}
	if t, ok := s.varByID[id]; ok {
		return t
	}
	for _, v := range s.varSeq {
		s.varByID[v.id] = v
	}
	return s.varByID[id]
}

func (ex *Exec) termSize(t *Term) int {
	if ex.sizes == nil {
		ex.sizes = map[int32]int{}
	}
	var rec func(t *Term) int
	rec = func(t *Term) int {
		if t == nil || t.op == OpConst || t.op == OpVar {
			return 1
		}
		if n, ok := ex.sizes[t.id]; ok {
			return n
		}
		n := 1 + rec(t.a) + rec(t.b) + rec(t.c)
		if n > 100000 {
			n = 100000
		}
		ex.sizes[t.id] = n
		return n
	}
	return rec(t)
}

// domainSize returns the number of feasible values of a term that is a function of one
// small variable not involved in multi-variable constraints (0 = unknown).
func (ex *Exec) domainSize(t *Term) int {
	sup := ex.ts.support(t)
	if len(sup) != 1 || ex.multi[sup[0]] {
		return 0
	}
	v := ex.ts.byID(sup[0])
	if v == nil || v.w > 16 || v.w == 0 {
		return 0
	}
	d := ex.doms[v.id]
	if d == nil {
		return 1 << v.w
	}
	return d.n
}
