package main

// Terms: hash-consed SMT expressions over bit-vectors (width 1..64), booleans
// (width 0) and IEEE floats carried as their bit patterns.  Constants are
// folded eagerly so that anything computed from concrete data stays concrete.

import (
	"fmt"
	"math"
	"math/bits"
	"strings"
)

type Op uint8

const (
	OpConst Op = iota
	OpVar
	// bit-vector -> bit-vector
	OpAdd
	OpSub
	OpMul
	OpUDiv
	OpURem
	OpSDiv
	OpSRem
	OpAnd
	OpOr
	OpXor
	OpNot
	OpNeg
	OpShl
	OpLShr
	OpAShr
	OpConcat
	OpExtract // k = hi<<8 | lo
	OpZExt
	OpSExt
	OpIte
	// -> bool
	OpEq
	OpUlt
	OpUle
	OpSlt
	OpSle
	OpBAnd
	OpBOr
	OpBNot
	// floats (operands are IEEE bit patterns of width 32/64)
	OpFEq
	OpFLt
	OpFLe
	OpFIsNaN
	OpFIsInf
	OpF64to32 // bits64 -> bits32 (RNE), NaN payload as amd64
	OpF32to64
	OpSIToF // k = float width; operand any int width
	OpUIToF
	OpFToSI // result width = int width; operand float bits; only defined in range (callers guard)
	OpFToUI
	OpFAdd
	OpFSub
	OpFMul
	OpFDiv
	OpFNeg
	OpFRound // round to integral: k = 0 toward zero (math.Trunc), 1 down (Floor), 2 up (Ceil)
)

type Term struct {
	op   Op
	w    uint8 // 0 = Bool
	a    *Term
	b    *Term
	c    *Term
	k    uint64 // constant value / extract bounds / aux
	name string
	id   int32
}

func (t *Term) IsConst() bool { return t.op == OpConst }
func (t *Term) IsBool() bool  { return t.w == 0 }
func (t *Term) Width() int    { return int(t.w) }

func mask(w uint8) uint64 {
	if w >= 64 {
		return ^uint64(0)
	}
	return (uint64(1) << w) - 1
}

// sext returns v (w bits) sign-extended to int64.
func sext(v uint64, w uint8) int64 {
	if w >= 64 {
		return int64(v)
	}
	sh := 64 - w
	return int64(v<<sh) >> sh
}

type termKey struct {
	op      Op
	w       uint8
	a, b, c int32
	k       uint64
}

// TermStore is the per-job hash-consing table.
type TermStore struct {
	tab     map[termKey]*Term
	vars    map[string]*Term
	varSeq  []*Term
	nextID  int32
	supp    map[int32][]int32
	varByID map[int32]*Term
}

func NewTermStore() *TermStore {
	return &TermStore{tab: map[termKey]*Term{}, vars: map[string]*Term{}, nextID: 1}
}

var (
	tTrue  = &Term{op: OpConst, w: 0, k: 1}
	tFalse = &Term{op: OpConst, w: 0, k: 0}
)

func Bool(b bool) *Term {
	if b {
		return tTrue
	}
	return tFalse
}

func Const(w int, v uint64) *Term {
	if w == 0 {
		return Bool(v&1 == 1)
	}
	return &Term{op: OpConst, w: uint8(w), k: v & mask(uint8(w))}
}

func (t *Term) ConstVal() uint64 { return t.k }
func (t *Term) ConstInt() int64  { return sext(t.k, t.w) }
func (t *Term) ConstBool() bool  { return t.k != 0 }

func tid(t *Term) int32 {
	if t == nil {
		return 0
	}
	return t.id
}

func (s *TermStore) mk(op Op, w uint8, a, b, c *Term, k uint64) *Term {
	// constants used as children need ids for keying: intern them too.
	a, b, c = s.intern(a), s.intern(b), s.intern(c)
	key := termKey{op, w, tid(a), tid(b), tid(c), k}
	if t, ok := s.tab[key]; ok {
		return t
	}
	t := &Term{op: op, w: w, a: a, b: b, c: c, k: k, id: s.nextID}
	s.nextID++
	s.tab[key] = t
	return t
}

func (s *TermStore) intern(t *Term) *Term {
	if t == nil || t.id != 0 {
		return t
	}
	if t.op != OpConst {
		panic("intern: non-const term without id")
	}
	key := termKey{OpConst, t.w, 0, 0, 0, t.k}
	if u, ok := s.tab[key]; ok {
		return u
	}
	u := &Term{op: OpConst, w: t.w, k: t.k, id: s.nextID}
	s.nextID++
	s.tab[key] = u
	return u
}

// Var returns the variable with this name (creating it on first use).
func (s *TermStore) Var(name string, w int) *Term {
	if t, ok := s.vars[name]; ok {
		if int(t.w) != w {
			panic(pathEnd{"harness-error", fmt.Sprintf("variable %s redeclared with width %d (was %d)", name, w, t.w)})
		}
		return t
	}
	t := &Term{op: OpVar, w: uint8(w), name: name, id: s.nextID}
	s.nextID++
	s.vars[name] = t
	s.varSeq = append(s.varSeq, t)
	return t
}

// ---- constant folding ----

func foldBin(op Op, w uint8, x, y uint64) (uint64, bool) {
	m := mask(w)
	switch op {
	case OpAdd:
		return (x + y) & m, true
	case OpSub:
		return (x - y) & m, true
	case OpMul:
		return (x * y) & m, true
	case OpUDiv:
		if y == 0 {
			return m, true
		}
		return x / y, true
	case OpURem:
		if y == 0 {
			return x, true
		}
		return x % y, true
	case OpSDiv:
		sx, sy := sext(x, w), sext(y, w)
		if sy == 0 {
			if sx < 0 {
				return 1, true
			}
			return m, true
		}
		if sy == -1 {
			return uint64(-sx) & m, true
		}
		return uint64(sx/sy) & m, true
	case OpSRem:
		sx, sy := sext(x, w), sext(y, w)
		if sy == 0 {
			return x, true
		}
		if sy == -1 {
			return 0, true
		}
		return uint64(sx%sy) & m, true
	case OpAnd:
		return x & y, true
	case OpOr:
		return x | y, true
	case OpXor:
		return x ^ y, true
	case OpShl:
		if y >= uint64(w) {
			return 0, true
		}
		return (x << y) & m, true
	case OpLShr:
		if y >= uint64(w) {
			return 0, true
		}
		return x >> y, true
	case OpAShr:
		sx := sext(x, w)
		if y >= uint64(w) {
			y = uint64(w) - 1
		}
		return uint64(sx>>y) & m, true
	}
	return 0, false
}

func (s *TermStore) Bin(op Op, x, y *Term) *Term {
	if x.w != y.w {
		panic(fmt.Sprintf("Bin %d: width mismatch %d vs %d", op, x.w, y.w))
	}
	w := x.w
	if x.IsConst() && y.IsConst() {
		if v, ok := foldBin(op, w, x.k, y.k); ok {
			return Const(int(w), v)
		}
	}
	// cheap identities
	switch op {
	case OpAdd, OpOr, OpXor:
		if x.IsConst() && x.k == 0 {
			return y
		}
		if y.IsConst() && y.k == 0 {
			return x
		}
	case OpSub, OpShl, OpLShr, OpAShr:
		if y.IsConst() && y.k == 0 {
			return x
		}
		if op != OpSub && y.IsConst() && y.k >= uint64(w) && op != OpAShr {
			return Const(int(w), 0)
		}
	case OpAnd:
		if x.IsConst() && x.k == 0 || y.IsConst() && y.k == 0 {
			return Const(int(w), 0)
		}
		if x.IsConst() && x.k == mask(w) {
			return y
		}
		if y.IsConst() && y.k == mask(w) {
			return x
		}
	case OpMul:
		if x.IsConst() && x.k == 1 {
			return y
		}
		if y.IsConst() && y.k == 1 {
			return x
		}
		if x.IsConst() && x.k == 0 || y.IsConst() && y.k == 0 {
			return Const(int(w), 0)
		}
	}
	if (op == OpAdd || op == OpMul || op == OpAnd || op == OpOr || op == OpXor) && x.IsConst() {
		x, y = y, x // canonical: constant on the right
	}
	if op == OpOr || op == OpAdd || op == OpXor {
		// (A << c) | B with B < 2^c  ==  concat(A[w-c-1:0], B[c-1:0])
		for i := 0; i < 2; i++ {
			if x.op == OpShl && x.b.IsConst() && x.b.k > 0 && x.b.k < uint64(w) {
				c := int(x.b.k)
				if _, hi, ok := urange(y); ok && hi < uint64(1)<<uint(c) {
					return s.Concat(s.Extract(x.a, int(w)-c-1, 0), s.Extract(y, c-1, 0))
				}
			}
			x, y = y, x
		}
	}
	// and with low mask of a zext / shifts: leave to the solver
	return s.mk(op, w, x, y, nil, 0)
}

func (s *TermStore) Not(x *Term) *Term {
	if x.IsConst() {
		return Const(int(x.w), ^x.k)
	}
	if x.op == OpNot {
		return x.a
	}
	return s.mk(OpNot, x.w, x, nil, nil, 0)
}

func (s *TermStore) Neg(x *Term) *Term {
	if x.IsConst() {
		return Const(int(x.w), -x.k)
	}
	return s.mk(OpNeg, x.w, x, nil, nil, 0)
}

func (s *TermStore) Extract(x *Term, hi, lo int) *Term {
	if hi < lo || hi >= int(x.w) {
		panic(fmt.Sprintf("Extract[%d:%d] of width %d", hi, lo, x.w))
	}
	w := uint8(hi - lo + 1)
	if lo == 0 && int(w) == int(x.w) {
		return x
	}
	if x.IsConst() {
		return Const(int(w), x.k>>uint(lo))
	}
	switch x.op {
	case OpExtract:
		l2 := int(x.k & 0xff)
		return s.Extract(x.a, hi+l2, lo+l2)
	case OpZExt, OpSExt:
		if hi < int(x.a.w) {
			return s.Extract(x.a, hi, lo)
		}
		if x.op == OpZExt && lo >= int(x.a.w) {
			return Const(int(w), 0)
		}
		if x.op == OpZExt && lo == 0 {
			return s.ZExt(x.a, int(w))
		}
	case OpConcat:
		bw := int(x.b.w)
		if hi < bw {
			return s.Extract(x.b, hi, lo)
		}
		if lo >= bw {
			return s.Extract(x.a, hi-bw, lo-bw)
		}
	case OpLShr:
		// (x >> c)[hi:lo] = x[hi+c:lo+c] when in range
		if x.b.IsConst() {
			c := int(x.b.k)
			if hi+c < int(x.a.w) {
				return s.Extract(x.a, hi+c, lo+c)
			}
			if lo+c >= int(x.a.w) {
				return Const(int(w), 0)
			}
		}
	case OpAShr:
		if x.b.IsConst() {
			c := int(x.b.k)
			if hi+c < int(x.a.w) {
				return s.Extract(x.a, hi+c, lo+c)
			}
		}
	case OpShl:
		if x.b.IsConst() {
			c := int(x.b.k)
			if lo >= c {
				return s.Extract(x.a, hi-c, lo-c)
			}
			if hi < c {
				return Const(int(w), 0)
			}
		}
	case OpAnd, OpOr, OpXor:
		// distribute over bitwise ops when one side is constant (masks)
		if x.b.IsConst() {
			return s.Bin(x.op, s.Extract(x.a, hi, lo), s.Extract(x.b, hi, lo))
		}
	case OpIte:
		if x.b.IsConst() && x.c.IsConst() {
			return s.Ite(x.a, s.Extract(x.b, hi, lo), s.Extract(x.c, hi, lo))
		}
	}
	return s.mk(OpExtract, w, x, nil, nil, uint64(hi)<<8|uint64(lo))
}

func (s *TermStore) Concat(hi, lo *Term) *Term {
	w := int(hi.w) + int(lo.w)
	if w > 64 {
		panic("Concat wider than 64")
	}
	if hi.IsConst() && lo.IsConst() {
		return Const(w, hi.k<<lo.w|lo.k)
	}
	// adjacent extracts of the same term
	if hi.op == OpExtract && lo.op == OpExtract && hi.a == lo.a {
		hl := int(hi.k & 0xff)
		lh := int(lo.k >> 8)
		if hl == lh+1 {
			return s.Extract(hi.a, int(hi.k>>8), int(lo.k&0xff))
		}
	}
	if hi.IsConst() && hi.k == 0 {
		return s.ZExt(lo, w)
	}
	if hi.op == OpZExt {
		return s.ZExt(s.Concat(hi.a, lo), w)
	}
	return s.mk(OpConcat, uint8(w), hi, lo, nil, 0)
}

func (s *TermStore) ZExt(x *Term, w int) *Term {
	if int(x.w) == w {
		return x
	}
	if int(x.w) > w {
		return s.Extract(x, w-1, 0)
	}
	if x.IsConst() {
		return Const(w, x.k)
	}
	if x.op == OpZExt {
		return s.ZExt(x.a, w)
	}
	return s.mk(OpZExt, uint8(w), x, nil, nil, 0)
}

func (s *TermStore) SExt(x *Term, w int) *Term {
	if int(x.w) == w {
		return x
	}
	if int(x.w) > w {
		return s.Extract(x, w-1, 0)
	}
	if x.IsConst() {
		return Const(w, uint64(sext(x.k, x.w)))
	}
	if x.op == OpZExt {
		return s.ZExt(x.a, w) // sign bit known zero
	}
	if x.op == OpSExt {
		return s.SExt(x.a, w)
	}
	return s.mk(OpSExt, uint8(w), x, nil, nil, 0)
}

func (s *TermStore) Ite(c, x, y *Term) *Term {
	if c.IsConst() {
		if c.k != 0 {
			return x
		}
		return y
	}
	if x == y || (x.IsConst() && y.IsConst() && x.k == y.k && x.w == y.w) {
		return x
	}
	if x.w != y.w {
		panic("Ite width mismatch")
	}
	if x.w == 0 {
		// boolean ite
		if x.IsConst() && y.IsConst() {
			if x.k != 0 {
				return c
			}
			return s.BNot(c)
		}
		return s.BOr(s.BAnd(c, x), s.BAnd(s.BNot(c), y))
	}
	return s.mk(OpIte, x.w, c, x, y, 0)
}

// ---- predicates ----

func (s *TermStore) Eq(x, y *Term) *Term {
	if x.w != y.w {
		panic(fmt.Sprintf("Eq width mismatch %d vs %d", x.w, y.w))
	}
	if x == y {
		return tTrue
	}
	if x.IsConst() && y.IsConst() {
		return Bool(x.k == y.k)
	}
	if x.w == 0 {
		if x.IsConst() {
			x, y = y, x
		}
		if y.IsConst() {
			if y.k != 0 {
				return x
			}
			return s.BNot(x)
		}
	}
	if x.IsConst() {
		x, y = y, x
	}
	if y.IsConst() {
		// zext(a) == c
		if x.op == OpZExt {
			if y.k > mask(x.a.w) {
				return tFalse
			}
			return s.Eq(x.a, Const(int(x.a.w), y.k))
		}
		if x.op == OpIte && x.b.IsConst() && x.c.IsConst() {
			return s.Ite(x.a, Bool(x.b.k == y.k), Bool(x.c.k == y.k))
		}
		if x.op == OpConcat {
			return s.BAnd(s.Eq(x.a, Const(int(x.a.w), y.k>>x.b.w)), s.Eq(x.b, Const(int(x.b.w), y.k)))
		}
	}
	if x.id > y.id && !y.IsConst() {
		x, y = y, x
	}
	return s.mk(OpEq, 0, x, y, nil, 0)
}

func (s *TermStore) Cmp(op Op, x, y *Term) *Term {
	if x.w != y.w {
		panic(fmt.Sprintf("Cmp width mismatch %d vs %d", x.w, y.w))
	}
	if x.IsConst() && y.IsConst() {
		switch op {
		case OpUlt:
			return Bool(x.k < y.k)
		case OpUle:
			return Bool(x.k <= y.k)
		case OpSlt:
			return Bool(sext(x.k, x.w) < sext(y.k, y.w))
		case OpSle:
			return Bool(sext(x.k, x.w) <= sext(y.k, y.w))
		}
	}
	if x == y {
		return Bool(op == OpUle || op == OpSle)
	}
	// x+d < x  (unsigned overflow test) when the ranges exclude overflow
	if (op == OpUlt || op == OpUle) && x.op == OpAdd && (x.a == y || x.b == y) {
		if _, _, ok := urange(x); ok { // urange(OpAdd) succeeds only without overflow
			if op == OpUlt {
				return tFalse
			}
		}
	}
	if (op == OpUle || op == OpUlt) && y.op == OpAdd && (y.a == x || y.b == x) {
		if _, _, ok := urange(y); ok && op == OpUle {
			return tTrue
		}
	}
	// range-based shortcuts for zero-extended small values
	if lo, hi, ok := urange(x); ok {
		if lo2, hi2, ok2 := urange(y); ok2 {
			sx, sy := signedSafe(hi, x.w), signedSafe(hi2, y.w)
			switch {
			case op == OpUlt || (op == OpSlt && sx && sy):
				if hi < lo2 {
					return tTrue
				}
				if lo >= hi2 {
					return tFalse
				}
			case op == OpUle || (op == OpSle && sx && sy):
				if hi <= lo2 {
					return tTrue
				}
				if lo > hi2 {
					return tFalse
				}
			}
		}
	}
	return s.mk(op, 0, x, y, nil, 0)
}

func signedSafe(hi uint64, w uint8) bool { return hi <= mask(w)>>1 }

// urange gives a cheap unsigned over-approximation of a term's value.
func urange(t *Term) (lo, hi uint64, ok bool) {
	switch t.op {
	case OpConst:
		return t.k, t.k, true
	case OpZExt:
		if l, h, ok := urange(t.a); ok {
			return l, h, true
		}
		return 0, mask(t.a.w), true
	case OpExtract:
		if t.k&0xff == 0 {
			if l, h, ok := urange(t.a); ok && h <= mask(t.w) {
				return l, h, true
			}
		}
		if t.w < 64 {
			return 0, mask(t.w), true
		}
	case OpVar:
		if t.w < 64 {
			return 0, mask(t.w), true
		}
	case OpSub:
		if t.b.IsConst() {
			if l, h, ok := urange(t.a); ok && l >= t.b.k {
				return l - t.b.k, h - t.b.k, true
			}
		}
	case OpUDiv:
		if t.b.IsConst() && t.b.k > 0 {
			if l, h, ok := urange(t.a); ok {
				return l / t.b.k, h / t.b.k, true
			}
			return 0, mask(t.w) / t.b.k, true
		}
	case OpAnd:
		if t.b.IsConst() {
			return 0, t.b.k, true
		}
	case OpIte:
		l1, h1, ok1 := urange(t.b)
		l2, h2, ok2 := urange(t.c)
		if ok1 && ok2 {
			if l2 < l1 {
				l1 = l2
			}
			if h2 > h1 {
				h1 = h2
			}
			return l1, h1, true
		}
	case OpAdd:
		l1, h1, ok1 := urange(t.a)
		l2, h2, ok2 := urange(t.b)
		if ok1 && ok2 {
			hs, c := bits.Add64(h1, h2, 0)
			if c == 0 && hs <= mask(t.w) {
				return l1 + l2, hs, true
			}
		}
	case OpMul:
		l1, h1, ok1 := urange(t.a)
		l2, h2, ok2 := urange(t.b)
		if ok1 && ok2 {
			hh, hl := bits.Mul64(h1, h2)
			if hh == 0 && hl <= mask(t.w) {
				return l1 * l2, hl, true
			}
		}
	case OpLShr:
		if t.b.IsConst() && t.b.k < 64 {
			if _, h, ok := urange(t.a); ok {
				return 0, h >> t.b.k, true
			}
			return 0, mask(t.w) >> t.b.k, true
		}
	case OpURem:
		if t.b.IsConst() && t.b.k > 0 {
			return 0, t.b.k - 1, true
		}
	}
	return 0, 0, false
}

func (s *TermStore) BNot(x *Term) *Term {
	if x.w != 0 {
		panic("BNot on non-bool")
	}
	if x.IsConst() {
		return Bool(x.k == 0)
	}
	if x.op == OpBNot {
		return x.a
	}
	return s.mk(OpBNot, 0, x, nil, nil, 0)
}

func (s *TermStore) BAnd(x, y *Term) *Term {
	if x.IsConst() {
		if x.k != 0 {
			return y
		}
		return tFalse
	}
	if y.IsConst() {
		if y.k != 0 {
			return x
		}
		return tFalse
	}
	if x == y {
		return x
	}
	return s.mk(OpBAnd, 0, x, y, nil, 0)
}

func (s *TermStore) BOr(x, y *Term) *Term {
	if x.IsConst() {
		if x.k != 0 {
			return tTrue
		}
		return y
	}
	if y.IsConst() {
		if y.k != 0 {
			return tTrue
		}
		return x
	}
	if x == y {
		return x
	}
	return s.mk(OpBOr, 0, x, y, nil, 0)
}

// ---- floats (on bit patterns) ----

func f64of(v uint64) float64 { return math.Float64frombits(v) }
func f32of(v uint64) float32 { return math.Float32frombits(uint32(v)) }
func fval(v uint64, w uint8) float64 {
	if w == 32 {
		return float64(f32of(v))
	}
	return f64of(v)
}
func fbits(f float64, w uint8) uint64 {
	if w == 32 {
		return uint64(math.Float32bits(float32(f)))
	}
	return math.Float64bits(f)
}

func (s *TermStore) FCmp(op Op, x, y *Term) *Term {
	if x.IsConst() && y.IsConst() {
		a, b := fval(x.k, x.w), fval(y.k, y.w)
		switch op {
		case OpFEq:
			return Bool(a == b)
		case OpFLt:
			return Bool(a < b)
		case OpFLe:
			return Bool(a <= b)
		}
	}
	return s.mk(op, 0, x, y, nil, 0)
}

func (s *TermStore) FIsNaN(x *Term) *Term {
	if x.IsConst() {
		return Bool(math.IsNaN(fval(x.k, x.w)))
	}
	if x.op == OpSIToF || x.op == OpUIToF {
		return tFalse // integers convert to finite numbers
	}
	if x.op == OpF32to64 || x.op == OpF64to32 {
		return s.FIsNaN(x.a)
	}
	return s.mk(OpFIsNaN, 0, x, nil, nil, 0)
}

func (s *TermStore) FIsInf(x *Term) *Term {
	if x.IsConst() {
		return Bool(math.IsInf(fval(x.k, x.w), 0))
	}
	if x.op == OpSIToF || x.op == OpUIToF {
		return tFalse // |x| < 2^64 is below the largest finite float32 and float64
	}
	if x.op == OpF32to64 {
		return s.FIsInf(x.a)
	}
	return s.mk(OpFIsInf, 0, x, nil, nil, 0)
}

func (s *TermStore) F64to32(x *Term) *Term {
	if x.IsConst() {
		return Const(32, uint64(math.Float32bits(float32(f64of(x.k)))))
	}
	if x.op == OpF32to64 {
		// exact for non-NaN; for NaN the hardware quiets the payload: keep general form
		return s.Ite(s.FIsNaN(x.a), s.Bin(OpOr, x.a, Const(32, 0x00400000)), x.a)
	}
	return s.mk(OpF64to32, 32, x, nil, nil, 0)
}

func (s *TermStore) F32to64(x *Term) *Term {
	if x.IsConst() {
		return Const(64, math.Float64bits(float64(f32of(x.k))))
	}
	return s.mk(OpF32to64, 64, x, nil, nil, 0)
}

func (s *TermStore) IToF(x *Term, signed bool, fw int) *Term {
	if x.IsConst() {
		var f float64
		if signed {
			f = float64(sext(x.k, x.w))
		} else {
			f = float64(x.k)
		}
		if fw == 32 {
			if signed {
				return Const(32, uint64(math.Float32bits(float32(sext(x.k, x.w)))))
			}
			return Const(32, uint64(math.Float32bits(float32(x.k))))
		}
		return Const(64, math.Float64bits(f))
	}
	op := OpUIToF
	if signed {
		op = OpSIToF
	}
	return s.mk(op, uint8(fw), x, nil, nil, uint64(fw))
}

func (s *TermStore) FArith(op Op, x, y *Term) *Term {
	if x.IsConst() && y.IsConst() {
		if x.w == 32 {
			a, b := f32of(x.k), f32of(y.k)
			var r float32
			switch op {
			case OpFAdd:
				r = a + b
			case OpFSub:
				r = a - b
			case OpFMul:
				r = a * b
			case OpFDiv:
				r = a / b
			}
			return Const(32, uint64(math.Float32bits(r)))
		}
		a, b := f64of(x.k), f64of(y.k)
		var r float64
		switch op {
		case OpFAdd:
			r = a + b
		case OpFSub:
			r = a - b
		case OpFMul:
			r = a * b
		case OpFDiv:
			r = a / b
		}
		return Const(64, math.Float64bits(r))
	}
	return s.mk(op, x.w, x, y, nil, 0)
}

// FToI converts a float to an integer of width w by truncation; the result is only meaningful
// when the truncated value is representable (callers branch on the range first).
func (s *TermStore) FToI(x *Term, w int, signed bool) *Term {
	if x.IsConst() {
		f := fval(x.k, x.w)
		if signed {
			return Const(w, uint64(int64(f)))
		}
		return Const(w, uint64(f))
	}
	op := OpFToUI
	if signed {
		op = OpFToSI
	}
	return s.mk(op, uint8(w), x, nil, nil, 0)
}

// FRound rounds a float to an integral value (mode 0 Trunc, 1 Floor, 2 Ceil).
func (s *TermStore) FRound(x *Term, mode int) *Term {
	if x.IsConst() {
		f := fval(x.k, x.w)
		switch mode {
		case 0:
			f = math.Trunc(f)
		case 1:
			f = math.Floor(f)
		default:
			f = math.Ceil(f)
		}
		return Const(int(x.w), fbits(f, x.w))
	}
	return s.mk(OpFRound, x.w, x, nil, nil, uint64(mode))
}

func (s *TermStore) FNeg(x *Term) *Term {
	sign := uint64(1) << (x.w - 1)
	return s.Bin(OpXor, x, Const(int(x.w), sign))
}

// ---- evaluation under a model ----

type Model map[int32]uint64 // var id -> value

type evalCtx struct {
	m    Model
	memo map[int32]uint64
}

func Eval(t *Term, m Model) uint64 {
	c := &evalCtx{m: m, memo: map[int32]uint64{}}
	return c.eval(t)
}

func (c *evalCtx) eval(t *Term) uint64 {
	switch t.op {
	case OpConst:
		return t.k
	case OpVar:
		return c.m[t.id] & maskb(t.w)
	}
	if v, ok := c.memo[t.id]; ok {
		return v
	}
	v := c.eval1(t)
	c.memo[t.id] = v
	return v
}

func maskb(w uint8) uint64 {
	if w == 0 {
		return 1
	}
	return mask(w)
}

func b2u(b bool) uint64 {
	if b {
		return 1
	}
	return 0
}

func (c *evalCtx) eval1(t *Term) uint64 {
	var x, y uint64
	if t.a != nil {
		x = c.eval(t.a)
	}
	if t.b != nil && t.op != OpIte {
		y = c.eval(t.b)
	}
	if t.op == OpIte {
		if x != 0 {
			return c.eval(t.b)
		}
		return c.eval(t.c)
	}
	return evalOp(t, x, y)
}

// evalOp applies a (non-ite) operator to evaluated operands.
func evalOp(t *Term, x, y uint64) uint64 {
	switch t.op {
	case OpAdd, OpSub, OpMul, OpUDiv, OpURem, OpSDiv, OpSRem, OpAnd, OpOr, OpXor, OpShl, OpLShr, OpAShr:
		v, _ := foldBin(t.op, t.w, x, y)
		return v
	case OpNot:
		return ^x & mask(t.w)
	case OpNeg:
		return -x & mask(t.w)
	case OpConcat:
		return x<<t.b.w | y
	case OpExtract:
		lo := uint(t.k & 0xff)
		return (x >> lo) & mask(t.w)
	case OpZExt:
		return x
	case OpSExt:
		return uint64(sext(x, t.a.w)) & mask(t.w)
	case OpEq:
		return b2u(x == y)
	case OpUlt:
		return b2u(x < y)
	case OpUle:
		return b2u(x <= y)
	case OpSlt:
		return b2u(sext(x, t.a.w) < sext(y, t.a.w))
	case OpSle:
		return b2u(sext(x, t.a.w) <= sext(y, t.a.w))
	case OpBAnd:
		return x & y
	case OpBOr:
		return x | y
	case OpBNot:
		return x ^ 1
	case OpFEq:
		return b2u(fval(x, t.a.w) == fval(y, t.a.w))
	case OpFLt:
		return b2u(fval(x, t.a.w) < fval(y, t.a.w))
	case OpFLe:
		return b2u(fval(x, t.a.w) <= fval(y, t.a.w))
	case OpFIsNaN:
		return b2u(math.IsNaN(fval(x, t.a.w)))
	case OpFIsInf:
		return b2u(math.IsInf(fval(x, t.a.w), 0))
	case OpF64to32:
		return uint64(math.Float32bits(float32(f64of(x))))
	case OpF32to64:
		return math.Float64bits(float64(f32of(x)))
	case OpSIToF:
		if t.w == 32 {
			return uint64(math.Float32bits(float32(sext(x, t.a.w))))
		}
		return math.Float64bits(float64(sext(x, t.a.w)))
	case OpUIToF:
		if t.w == 32 {
			return uint64(math.Float32bits(float32(x)))
		}
		return math.Float64bits(float64(x))
	case OpFAdd, OpFSub, OpFMul, OpFDiv:
		r := (&TermStore{}).FArith(t.op, Const(int(t.w), x), Const(int(t.w), y))
		return r.k
	case OpFRound:
		return (&TermStore{}).FRound(Const(int(t.w), x), int(t.k)).k
	case OpFToSI:
		return uint64(int64(fval(x, t.a.w))) & mask(t.w)
	case OpFToUI:
		return uint64(fval(x, t.a.w)) & mask(t.w)
	}
	panic(fmt.Sprintf("eval: unhandled op %d", t.op))
}

// ---- SMT-LIB printing ----

func sortOf(w uint8) string {
	if w == 0 {
		return "Bool"
	}
	return fmt.Sprintf("(_ BitVec %d)", w)
}

func constSMT(t *Term) string {
	if t.w == 0 {
		if t.k != 0 {
			return "true"
		}
		return "false"
	}
	if t.w%4 == 0 {
		return fmt.Sprintf("#x%0*x", int(t.w)/4, t.k)
	}
	return fmt.Sprintf("#b%0*b", int(t.w), t.k)
}

func ref(t *Term) string {
	switch t.op {
	case OpConst:
		return constSMT(t)
	case OpVar:
		return "|" + t.name + "|"
	}
	return fmt.Sprintf("t%d", t.id)
}

func fpSort(w uint8) string {
	if w == 32 {
		return "8 24"
	}
	return "11 53"
}

// fpProducing reports whether the term is the result of a floating-point operation; such
// terms are defined twice in the solver: tNf (FloatingPoint sort) and tN (its bit pattern),
// so that chains of FP operations do not round-trip through fp.to_ieee_bv.
func fpProducing(t *Term) bool {
	switch t.op {
	case OpF64to32, OpF32to64, OpSIToF, OpUIToF, OpFAdd, OpFSub, OpFMul, OpFDiv, OpFRound:
		return true
	}
	return false
}

func toFP(t *Term) string {
	if fpProducing(t) {
		return fmt.Sprintf("t%df", t.id)
	}
	return fmt.Sprintf("((_ to_fp %s) %s)", fpSort(t.w), ref(t))
}

// fpBodySMT gives the FloatingPoint-sorted defining expression of an fp-producing term.
func fpBodySMT(t *Term) string {
	switch t.op {
	case OpF64to32:
		return fmt.Sprintf("((_ to_fp 8 24) RNE %s)", toFP(t.a))
	case OpF32to64:
		return fmt.Sprintf("((_ to_fp 11 53) RNE %s)", toFP(t.a))
	case OpSIToF:
		return fmt.Sprintf("((_ to_fp %s) RNE %s)", fpSort(t.w), ref(t.a))
	case OpUIToF:
		return fmt.Sprintf("((_ to_fp_unsigned %s) RNE %s)", fpSort(t.w), ref(t.a))
	case OpFAdd, OpFSub, OpFMul, OpFDiv:
		n := map[Op]string{OpFAdd: "fp.add", OpFSub: "fp.sub", OpFMul: "fp.mul", OpFDiv: "fp.div"}[t.op]
		return fmt.Sprintf("(%s RNE %s %s)", n, toFP(t.a), toFP(t.b))
	case OpFRound:
		return fmt.Sprintf("(fp.roundToIntegral %s %s)", []string{"RTZ", "RTN", "RTP"}[t.k], toFP(t.a))
	}
	panic("fpBodySMT")
}

var binNames = map[Op]string{
	OpAdd: "bvadd", OpSub: "bvsub", OpMul: "bvmul", OpUDiv: "bvudiv", OpURem: "bvurem",
	OpSDiv: "bvsdiv", OpSRem: "bvsrem", OpAnd: "bvand", OpOr: "bvor", OpXor: "bvxor",
	OpShl: "bvshl", OpLShr: "bvlshr", OpAShr: "bvashr", OpConcat: "concat",
	OpEq: "=", OpUlt: "bvult", OpUle: "bvule", OpSlt: "bvslt", OpSle: "bvsle",
	OpBAnd: "and", OpBOr: "or",
}

// bodySMT prints the defining expression of a non-leaf term with children by reference.
func bodySMT(t *Term) string {
	if n, ok := binNames[t.op]; ok {
		return fmt.Sprintf("(%s %s %s)", n, ref(t.a), ref(t.b))
	}
	switch t.op {
	case OpNot:
		return fmt.Sprintf("(bvnot %s)", ref(t.a))
	case OpNeg:
		return fmt.Sprintf("(bvneg %s)", ref(t.a))
	case OpBNot:
		return fmt.Sprintf("(not %s)", ref(t.a))
	case OpExtract:
		return fmt.Sprintf("((_ extract %d %d) %s)", t.k>>8, t.k&0xff, ref(t.a))
	case OpZExt:
		return fmt.Sprintf("((_ zero_extend %d) %s)", int(t.w)-int(t.a.w), ref(t.a))
	case OpSExt:
		return fmt.Sprintf("((_ sign_extend %d) %s)", int(t.w)-int(t.a.w), ref(t.a))
	case OpIte:
		return fmt.Sprintf("(ite %s %s %s)", ref(t.a), ref(t.b), ref(t.c))
	case OpFEq:
		return fmt.Sprintf("(fp.eq %s %s)", toFP(t.a), toFP(t.b))
	case OpFLt:
		return fmt.Sprintf("(fp.lt %s %s)", toFP(t.a), toFP(t.b))
	case OpFLe:
		return fmt.Sprintf("(fp.leq %s %s)", toFP(t.a), toFP(t.b))
	case OpFIsNaN:
		return fmt.Sprintf("(fp.isNaN %s)", toFP(t.a))
	case OpFIsInf:
		return fmt.Sprintf("(fp.isInfinite %s)", toFP(t.a))
	case OpF64to32:
		// non-NaN: RNE rounding; NaN: sign, all-ones exponent, quiet bit, top 22 payload bits (amd64 cvtsd2ss)
		x := ref(t.a)
		nan := fmt.Sprintf("(concat ((_ extract 63 63) %s) #xff #b1 ((_ extract 50 29) %s))", x, x)
		return fmt.Sprintf("(ite (fp.isNaN %s) %s (fp.to_ieee_bv t%df))", toFP(t.a), nan, t.id)
	case OpF32to64:
		x := ref(t.a)
		nan := fmt.Sprintf("(concat ((_ extract 31 31) %s) #b11111111111 #b1 ((_ extract 21 0) %s) #b00000000000000000000000000000)", x, x)
		return fmt.Sprintf("(ite (fp.isNaN %s) %s (fp.to_ieee_bv t%df))", toFP(t.a), nan, t.id)
	case OpSIToF, OpUIToF, OpFAdd, OpFSub, OpFMul, OpFDiv:
		return fmt.Sprintf("(fp.to_ieee_bv t%df)", t.id)
	case OpFToSI:
		return fmt.Sprintf("((_ fp.to_sbv %d) RTZ %s)", t.w, toFP(t.a))
	case OpFToUI:
		return fmt.Sprintf("((_ fp.to_ubv %d) RTZ %s)", t.w, toFP(t.a))
	case OpFRound:
		// a NaN operand keeps its bit pattern
		return fmt.Sprintf("(ite (fp.isNaN %s) %s (fp.to_ieee_bv t%df))", toFP(t.a), ref(t.a), t.id)
	}
	panic(fmt.Sprintf("bodySMT: unhandled op %d", t.op))
}

// String gives a compact debugging form.
func (t *Term) String() string {
	var sb strings.Builder
	t.str(&sb, 0)
	return sb.String()
}

func (t *Term) str(sb *strings.Builder, depth int) {
	switch t.op {
	case OpConst:
		if t.w == 0 {
			fmt.Fprintf(sb, "%v", t.k != 0)
		} else {
			fmt.Fprintf(sb, "%d:%d", t.k, t.w)
		}
		return
	case OpVar:
		sb.WriteString(t.name)
		return
	}
	if depth > 6 {
		fmt.Fprintf(sb, "t%d", t.id)
		return
	}
	fmt.Fprintf(sb, "(op%d", t.op)
	if t.op == OpExtract {
		fmt.Fprintf(sb, "[%d:%d]", t.k>>8, t.k&0xff)
	}
	for _, c := range []*Term{t.a, t.b, t.c} {
		if c != nil {
			sb.WriteByte(' ')
			c.str(sb, depth+1)
		}
	}
	sb.WriteByte(')')
}
