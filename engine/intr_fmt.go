package main

// Model of package fmt's formatted printing for the verbs the repository uses.
// The format string is always concrete.  Concrete operands are printed by the real
// fmt; symbolic operands produce lazy number segments (%d %v %X on integers),
// pass-through strings (%s %v), or opaque segments (%q %#U %g: injective, text not modelled).

import (
	"fmt"
	"go/token"
	"go/types"
	"math"
	"strconv"
	"strings"
	"sync"
)

func init() {
	reg("fmt.Sprintf", func(ip *Interp, fr *frame, args []Value) Value {
		r := ip.format(fr, args[0], args[1].(Slice).s)
		ip.noteAllocConst("fmt.Sprintf", ip.approxLen(r))
		return r
	})
	reg("fmt.Errorf", func(ip *Interp, fr *frame, args []Value) Value {
		return ip.newError(ip.format(fr, args[0], args[1].(Slice).s))
	})
	reg("fmt.Sprint", func(ip *Interp, fr *frame, args []Value) Value {
		return ip.sprint(fr, args[0].(Slice).s, false)
	})
	reg("fmt.Sprintln", func(ip *Interp, fr *frame, args []Value) Value {
		return ip.sprint(fr, args[0].(Slice).s, true)
	})
	reg("fmt.Fprintf", func(ip *Interp, fr *frame, args []Value) Value {
		s := ip.format(fr, args[1], args[2].(Slice).s)
		return ip.writeTo(fr, args[0], s)
	})
	reg("fmt.Fprintln", func(ip *Interp, fr *frame, args []Value) Value {
		s := ip.sprint(fr, args[1].(Slice).s, true)
		return ip.writeTo(fr, args[0], s)
	})
	reg("fmt.Fprint", func(ip *Interp, fr *frame, args []Value) Value {
		s := ip.sprint(fr, args[1].(Slice).s, false)
		return ip.writeTo(fr, args[0], s)
	})
	for _, n := range []string{"fmt.Println", "fmt.Printf", "fmt.Print"} {
		reg(n, func(ip *Interp, fr *frame, args []Value) Value { return Tuple{Const(64, 0), Iface{}} })
	}
}

func (ip *Interp) writeTo(fr *frame, w Value, s Value) Value {
	wi := w.(Iface)
	if wi.t != nil && isStringsBuilderPtr(wi.t) {
		intrinsics["(*strings.Builder).WriteString"](ip, fr, []Value{wi.v, s})
		return Tuple{Const(64, uint64(ip.approxLen(s))), Iface{}}
	}
	ip.ex.endPath("unsupported", fmt.Sprintf("fmt.Fprint* to writer of type %v", wi.t))
	return nil
}

func (ip *Interp) sprint(fr *frame, ops []Value, ln bool) Value {
	var out Value = ""
	for i, a := range ops {
		if i > 0 {
			// Sprint adds spaces between operands when neither is a string; Sprintln always
			isStr := func(v Value) bool {
				it := v.(Iface)
				return it.t != nil && isString(it.t)
			}
			if ln || (!isStr(a) && !isStr(ops[i-1])) {
				out = concatStr(out, " ")
			}
		}
		out = concatStr(out, ip.fmtOne(fr, 'v', "", a.(Iface)))
	}
	if ln {
		out = concatStr(out, "\n")
	}
	return out
}

func (ip *Interp) format(fr *frame, fv Value, ops []Value) Value {
	f, ok := fv.(string)
	if !ok {
		return ip.formatSym(fr, fv, ops)
	}
	var out Value = ""
	argi := 0
	for i := 0; i < len(f); {
		j := strings.IndexByte(f[i:], '%')
		if j < 0 {
			out = concatStr(out, f[i:])
			break
		}
		out = concatStr(out, f[i:i+j])
		i += j + 1
		if i >= len(f) {
			out = concatStr(out, "%!(NOVERB)")
			break
		}
		// flags, width, precision
		k := i
		for k < len(f) && strings.IndexByte("+-# 0123456789.", f[k]) >= 0 {
			k++
		}
		if k >= len(f) {
			out = concatStr(out, "%!(NOVERB)")
			break
		}
		spec, verb := f[i:k], f[k]
		i = k + 1
		if verb == '%' {
			out = concatStr(out, "%")
			continue
		}
		if argi >= len(ops) {
			out = concatStr(out, "%!"+string(verb)+"(MISSING)")
			continue
		}
		out = concatStr(out, ip.fmtOne(fr, verb, spec, ops[argi].(Iface)))
		argi++
	}
	if argi < len(ops) {
		out = concatStr(out, "%!(EXTRA ")
		for n, a := range ops[argi:] {
			if n > 0 {
				out = concatStr(out, ", ")
			}
			it := a.(Iface)
			tn := "<nil>"
			if it.t != nil {
				tn = it.t.String()
			}
			out = concatStr(concatStr(out, tn+"="), ip.fmtOne(fr, 'v', "", it))
		}
		out = concatStr(out, ")")
	}
	return out
}

// goValue converts a concrete scalar/string value to the host value of its Go type.
func goValue(t types.Type, v Value) (interface{}, bool) {
	switch v := v.(type) {
	case string:
		return v, true
	case *Term:
		if !v.IsConst() {
			return nil, false
		}
		b, ok := t.Underlying().(*types.Basic)
		if !ok {
			return nil, false
		}
		switch b.Kind() {
		case types.Bool:
			return v.k != 0, true
		case types.Int:
			return int(v.ConstInt()), true
		case types.Int8:
			return int8(v.ConstInt()), true
		case types.Int16:
			return int16(v.ConstInt()), true
		case types.Int32:
			return int32(v.ConstInt()), true
		case types.Int64:
			return v.ConstInt(), true
		case types.Uint:
			return uint(v.k), true
		case types.Uint8:
			return uint8(v.k), true
		case types.Uint16:
			return uint16(v.k), true
		case types.Uint32:
			return uint32(v.k), true
		case types.Uint64:
			return v.k, true
		case types.Uintptr:
			return uintptr(v.k), true
		case types.Float32:
			return math.Float32frombits(uint32(v.k)), true
		case types.Float64:
			return math.Float64frombits(v.k), true
		}
	}
	return nil, false
}

func (ip *Interp) fmtOne(fr *frame, verb byte, spec string, a Iface) Value {
	if a.t == nil {
		if verb == 'v' {
			return "<nil>"
		}
		return "%!" + string(verb) + "(<nil>)"
	}
	if verb == 'w' {
		verb = 'v' // Errorf's %w prints like %v (the wrapped chain is not kept: errors.Is/As on the result are not modelled)
	}
	// methods first (error, then Stringer) for the string-ish verbs
	switch verb {
	case 'v', 's', 'q', 'x', 'X':
		if spec != "#" || verb != 'v' {
			if s, ok := ip.stringMethod(fr, a); ok {
				return ip.fmtString(verb, spec, s)
			}
		}
	}
	if isString(a.t) {
		return ip.fmtString(verb, spec, a.v)
	}
	if t, ok := a.v.(*Term); ok {
		if gv, ok := goValue(a.t, t); ok {
			return fmt.Sprintf("%"+spec+string(verb), gv)
		}
		w, signed, isInt, isFloat := basicInfo(a.t)
		switch {
		case isBool(a.t):
			if ip.ex.Branch(t) {
				return fmt.Sprintf("%"+spec+string(verb), true)
			}
			return fmt.Sprintf("%"+spec+string(verb), false)
		case isInt:
			switch {
			case (verb == 'd' || verb == 'v') && spec == "":
				return numSeg(t, 10, signed, 0, false)
			case verb == 'X' && (spec == "02" || spec == ""):
				if signed {
					// negative values print a sign; the repository only prints byte-range runes
					if ip.ex.Branch(ip.ts.Cmp(OpSlt, t, Const(w, 0))) {
						ip.ex.endPath("unsupported", "%X of a negative symbolic value")
					}
				}
				mw := 0
				if spec == "02" {
					mw = 2
				}
				return numSeg(t, 16, false, mw, true)
			case verb == 'x' && spec == "":
				return numSeg(t, 16, false, 0, false)
			case verb == 'b' && spec == "":
				return numSeg(t, 2, signed, 0, false)
			case (verb == 'o' || verb == 'x' || verb == 'X' || verb == 'b' || verb == 'd') && (spec == "" || len(spec) == 2 && spec[0] == '0' && spec[1] >= '1' && spec[1] <= '9'):
				// zero-padded / other bases: non-negative values only (the sign would count towards the width)
				if signed && ip.ex.Branch(ip.ts.Cmp(OpSlt, t, Const(w, 0))) {
					ip.ex.endPath("unsupported", "padded or non-decimal verb on a negative symbolic value")
				}
				mw := 0
				if spec != "" {
					mw = int(spec[1] - '0')
				}
				base := map[byte]int{'o': 8, 'x': 16, 'X': 16, 'b': 2, 'd': 10}[verb]
				return numSeg(t, base, false, mw, verb == 'X')
			case verb == 'q' || verb == 'U' || verb == 'c':
				return opaqueStr("fmt%"+spec+string(verb), t)
			}
		case isFloat:
			if (verb == 'v' || verb == 'g') && spec == "" {
				if w == 32 {
					return opaqueStr("FormatFloat32", t, Const(8, 'g'), Const(64, ^uint64(0)))
				}
				return opaqueStr("FormatFloat", t, Const(8, 'g'), Const(64, ^uint64(0)), Const(64, uint64(w)))
			}
		}
		ip.ex.endPath("unsupported", fmt.Sprintf("fmt verb %%%s%c on symbolic %v", spec, verb, a.t))
	}
	// composite values printed with %v: only what the repo needs
	switch v := a.v.(type) {
	case runtimeError:
		return ip.fmtString(verb, spec, v.msg)
	case Slice:
		if verb == 'v' {
			var out Value = "["
			et := a.t.Underlying().(*types.Slice).Elem()
			for i, e := range v.s {
				if i > 0 {
					out = concatStr(out, " ")
				}
				var ei Iface
				if x, ok := e.(Iface); ok {
					ei = x
				} else {
					ei = Iface{t: et, v: e}
				}
				out = concatStr(out, ip.fmtOne(fr, 'v', "", ei))
			}
			return concatStr(out, "]")
		}
	}
	ip.ex.endPath("unsupported", fmt.Sprintf("fmt verb %%%s%c on %v", spec, verb, a.t))
	return nil
}

func (ip *Interp) fmtString(verb byte, spec string, s Value) Value {
	if gs, ok := s.(string); ok {
		return fmt.Sprintf("%"+spec+string(verb), gs)
	}
	switch {
	case (verb == 's' || verb == 'v') && spec == "":
		return s
	case verb == 'q' && spec == "":
		return opaqueStr("q", s)
	}
	ip.ex.endPath("unsupported", fmt.Sprintf("fmt verb %%%s%c on symbolic string", spec, verb))
	return nil
}

// stringMethod returns Error() or String() of the operand when its dynamic type has one.
func (ip *Interp) stringMethod(fr *frame, a Iface) (Value, bool) {
	if a.t == runtimeErrorType {
		return a.v.(runtimeError).msg, true
	}
	ms := ip.prog.MethodSets.MethodSet(a.t)
	for _, name := range []string{"Error", "String"} {
		sel := ms.Lookup(nil, name)
		if sel == nil {
			continue
		}
		sig, ok := sel.Type().(*types.Signature)
		if !ok || sig.Params().Len() != 0 || sig.Results().Len() != 1 || !isString(sig.Results().At(0).Type()) {
			continue
		}
		fn := ip.prog.MethodValue(sel)
		if fn == nil {
			continue
		}
		// fmt prints "<nil>" for nil pointer receivers of pointer methods
		if p, ok := a.v.(*Value); ok && p == nil {
			return "<nil>", true
		}
		return ip.call(fr, token.NoPos, fn, []Value{a.v}), true
	}
	return nil, false
}

var _ = strconv.Itoa

var sbTypeCache sync.Map

func isStringsBuilderPtr(t types.Type) bool {
	if v, ok := sbTypeCache.Load(t); ok {
		return v.(bool)
	}
	r := t.String() == "*strings.Builder"
	sbTypeCache.Store(t, r)
	return r
}

// formatSym handles a format string with symbolic bytes (e.g. a message name spliced into
// the format): every symbolic byte forks on being '%'; the bytes of a directive itself are
// concretised.  Literal stretches are copied through.
func (ip *Interp) formatSym(fr *frame, fv Value, ops []Value) Value {
	for _, g := range segsOf(fv) {
		if g.kind == segOpaque {
			ip.ex.endPath("unsupported", "format string with opaque segment")
		}
	}
	b := ip.strBytes(fv)
	var out Value = ""
	var lit []*Term
	flush := func() {
		if len(lit) > 0 {
			out = concatStr(out, mkStr(lit))
			lit = nil
		}
	}
	argi := 0
	for i := 0; i < len(b); {
		c := b[i]
		if !ip.ex.Branch(ip.ts.Eq(c, byteConst['%'])) {
			lit = append(lit, c)
			i++
			continue
		}
		flush()
		i++
		if i >= len(b) {
			out = concatStr(out, "%!(NOVERB)")
			break
		}
		// flags/width/precision and verb: concrete
		spec := ""
		var verb byte
		for i < len(b) {
			ch := byte(ip.ex.Concretize(b[i], "format directive byte"))
			i++
			if strings.IndexByte("+-# 0123456789.", ch) >= 0 {
				spec += string(ch)
				continue
			}
			verb = ch
			break
		}
		if verb == 0 {
			out = concatStr(out, "%!(NOVERB)")
			break
		}
		if verb == '%' {
			out = concatStr(out, "%")
			continue
		}
		if verb >= 0x80 {
			ip.ex.endPath("unsupported", "non-ASCII verb in a symbolic format string")
		}
		if argi >= len(ops) {
			out = concatStr(out, "%!"+string(verb)+"(MISSING)")
			continue
		}
		out = concatStr(out, ip.fmtOne(fr, verb, spec, ops[argi].(Iface)))
		argi++
	}
	flush()
	if argi < len(ops) {
		out = concatStr(out, "%!(EXTRA ")
		for n, a := range ops[argi:] {
			if n > 0 {
				out = concatStr(out, ", ")
			}
			it := a.(Iface)
			tn := "<nil>"
			if it.t != nil {
				tn = it.t.String()
			}
			out = concatStr(concatStr(out, tn+"="), ip.fmtOne(fr, 'v', "", it))
		}
		out = concatStr(out, ")")
	}
	return out
}
