#!/bin/bash
# Development aid: seed_try.sh <seed-name> <check-id> [timeout_s]  - run one quick check against a private copy of /repo with the seeded change applied
S=$1; C=$2; T=${3:-600}; W=/var/tmp/try-$S
if [ ! -d $W/pkg ]; then rm -rf $W; mkdir -p $W; git -C /repo archive HEAD | tar -x -C $W; cp /repo/go.sum $W/; (cd $W && git init -q . && git apply /verif/seeded/$S/patch.diff) || exit 2; fi
rm -rf $W/out $W/scratch
cd /verif && VERIF_REPO=$W VERIF_OUT=$W/out VERIF_SCRATCH=$W/scratch timeout $T ./check $C --tier quick 2>&1 | grep -v "^  harness" | tail -6 | cut -c1-260
echo "exit=${PIPESTATUS[0]}"
