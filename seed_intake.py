#!/usr/bin/env python3
"""Intake of a seeded change produced by an independent sub-agent in /tmp/wt/<ID>-<tag>:
confirm it (compiles, existing tests pass, demonstration fails with / passes without),
run our checks against it (applied to /repo, reverted straight afterwards), and keep it as
/verif/seeded/<ID>-<tag><k>/{patch.diff,demo_test.go,meta.json}.

  seed_intake.py <ID> [tag] [--checks ID,ID,...]
"""
import sys, os, re, json, subprocess, shutil, time
pid = sys.argv[1]
tag = sys.argv[2] if len(sys.argv) > 2 and not sys.argv[2].startswith("--") else "a"
checks = None
for a in sys.argv:
    if a.startswith("--checks="):
        checks = a.split("=")[1].split(",")
wt = "/tmp/wt/%s-%s" % (pid, tag)
ENV = dict(os.environ, GOFLAGS="-mod=mod", GOPROXY="off", GOSUMDB="off", GOTOOLCHAIN="local")
def sh(cmd, cwd=None):
    return subprocess.run(cmd, shell=True, cwd=cwd, env=ENV, stdout=subprocess.PIPE, stderr=subprocess.STDOUT, text=True)
prop = [json.loads(l) for l in open("/verif/properties.jsonl") if json.loads(l)["id"] == pid][0]
for k in (1, 2):
    patch = "%s/patch%d.diff" % (wt, k)
    demo = "%s/demo%d_test.go.txt" % (wt, k)
    if not os.path.exists(patch) or not os.path.exists(demo):
        print("%s change %d: missing files" % (pid, k)); continue
    src = open(demo).read()
    m = re.search(r"pkg/[\w/]+", src.splitlines()[0])
    pkgdir = m.group(0).rstrip("/") if m else None
    if not pkgdir:
        m = re.search(r"^package (\w+)", src, re.M)
        pkgdir = {"ast": "pkg/ast", "hsms": "pkg/parser/hsms", "sml": "pkg/parser/sml", "ast_test": "pkg/ast", "hsms_test": "pkg/parser/hsms", "sml_test": "pkg/parser/sml"}[m.group(1)]
    # confirm in the scratch worktree
    sh("git checkout -- . && git clean -fdq pkg", cwd=wt)
    demo_path = "%s/%s/zz_seed_demo_test.go" % (wt, pkgdir)
    r_apply = sh("git apply %s" % patch, cwd=wt)
    suite = sh("go build ./... && go test -vet=off -count=1 ./...", cwd=wt)
    shutil.copy(demo, demo_path)
    race = "-race" if "race" in open("%s/NOTES.md" % wt).read().lower() and pid == "C17" else ""
    with_change = sh("go test -vet=off -count=1 %s ./%s" % (race, pkgdir), cwd=wt)
    sh("git checkout -- .", cwd=wt)
    without = sh("go test -vet=off -count=1 %s ./%s" % (race, pkgdir), cwd=wt)
    os.remove(demo_path)
    confirmed = (r_apply.returncode == 0 and suite.returncode == 0 and with_change.returncode != 0 and without.returncode == 0)
    print("%s change %d: apply=%d suite=%d demo-with=%d demo-without=%d => %s" % (pid, k, r_apply.returncode, suite.returncode, with_change.returncode, without.returncode, "CONFIRMED" if confirmed else "NOT CONFIRMED"), flush=True)
    if not confirmed:
        print(suite.stdout[-800:] if suite.returncode else "", with_change.stdout[-500:], without.stdout[-500:])
        continue
    # run our checks against it
    ids = checks or [pid]
    if "--no-checks" in sys.argv:
        # checks are run afterwards by seed_matrix.py on a private copy of /repo
        class ev: stdout = ""
        flagged = None
    else:
        ev = sh("/verif/mutant_eval.py %s %s" % (patch, " ".join(ids)))
        print(ev.stdout)
        flagged = re.search(r"FLAGGED-BY: (.*?)  INCONCLUSIVE: (.*)", ev.stdout)
    out = "/verif/seeded/%s-%s%d" % (pid, tag, k)
    os.makedirs(out, exist_ok=True)
    shutil.copy(patch, out + "/patch.diff")
    shutil.copy(demo, out + "/demo_test.go")
    notes = open("%s/NOTES.md" % wt).read()
    json.dump({
        "property": pid, "title": prop["title"], "source": "independent sub-agent, scratch worktree %s (given only the property text)" % wt,
        "demo_package_dir": pkgdir,
        "confirmed": {"applies": True, "existing_suite_passes_with_change": True, "demo_fails_with_change": True, "demo_passes_without_change": True,
                      "commands": ["git apply patch.diff", "go build ./... && go test -vet=off -count=1 ./...", "go test -vet=off -count=1 %s ./%s (with demo)" % (race, pkgdir)]},
        "checks_run": ids,
        "flagged_by": flagged.group(1).split() if flagged and flagged.group(1) != "none" else [],
        "inconclusive": flagged.group(2).split() if flagged and flagged.group(2).strip() != "none" else [],
        "check_output": [l for l in ev.stdout.splitlines() if l[:3] in ("C0", "C1") or l.startswith("build")],
        "agent_notes": notes[:6000],
    }, open(out + "/meta.json", "w"), indent=1)
