//go:build verif

package ast

import rt "github.com/wolimst/lib-secs2-hsms-go/pkg/zzverifrt"

// ZZ_C13_header: getHeaderBytes for one format (param typ) and EVERY element count
// 0 <= n < 2^40: error iff n*w > 16,777,215, else format byte + minimal big-endian length.
func ZZ_C13_header() {
	ti := rt.Param("typ")
	n := rt.Int("n")
	rt.Assume(n >= 0)
	rt.Assume(n < 1<<40)
	w := zzTypeWidth[ti]
	hb, err := getHeaderBytes(zzTypeNames[ti], n)
	total := n * w
	if total > 16777215 {
		rt.Assert(err != nil, "limit:error-above")
		rt.Reach("above")
		return
	}
	rt.Assert(err == nil, "limit:no-error-within")
	rt.Assert(len(hb) > 0, "header:non-empty")
	code := zzTypeCodes[ti]
	if total <= 255 {
		rt.Assert(len(hb) == 2, "header:1-length-byte")
		rt.Assert(hb[0] == byte(code<<2|1), "header:format-byte")
		rt.Assert(int(hb[1]) == total, "header:length-value")
		rt.Reach("one")
	} else if total <= 65535 {
		rt.Assert(len(hb) == 3, "header:2-length-bytes")
		rt.Assert(hb[0] == byte(code<<2|2), "header:format-byte")
		rt.Assert(int(hb[1])<<8|int(hb[2]) == total, "header:length-value")
		rt.Reach("two")
	} else {
		rt.Assert(len(hb) == 4, "header:3-length-bytes")
		rt.Assert(hb[0] == byte(code<<2|3), "header:format-byte")
		rt.Assert(int(hb[1])<<16|int(hb[2])<<8|int(hb[3]) == total, "header:length-value")
		rt.Reach("three")
	}
	rt.Reach("end")
}

// ZZ_C13_bytelen: getDataByteLength is count x width for every count below 2^40.
func ZZ_C13_bytelen() {
	ti := rt.Param("typ")
	n := rt.Int("n")
	rt.Assume(n >= 0)
	rt.Assume(n < 1<<40)
	rt.Assert(int64(getDataByteLength(zzTypeNames[ti], n)) == int64(n)*int64(zzTypeWidth[ti]), "bytelen")
	rt.Reach("end")
}
