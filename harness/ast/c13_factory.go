//go:build verif

package ast

import rt "github.com/wolimst/lib-secs2-hsms-go/pkg/zzverifrt"

// ZZ_C13_factory: the factories at real sizes: an item of n elements of format `typ`
// (0 list .. 13 u4, order of zzTypeNames) is constructible iff n*width <= 16,777,215, and a
// constructible item encodes to format byte + minimal length + n*width payload bytes.
// Three element positions (first, middle, last) are symbolic, the rest is filler.
func ZZ_C13_factory() {
	ti, n := rt.Param("typ"), rt.Param("n")
	w := zzTypeWidth[ti]
	vals := make([]interface{}, n)
	sym := map[int]bool{0: true, n / 2: true, n - 1: true}
	var fillV interface{}
	switch zzTypeNames[ti] {
	case "list":
		fillV = NewEmptyListForHarness()
	case "binary":
		fillV = 7
	case "boolean":
		fillV = true
	case "i1", "i2", "i4", "i8":
		fillV = int8(-3)
	case "u1", "u2", "u4", "u8":
		fillV = uint8(200)
	case "f4", "f8":
		fillV = float32(1.5)
	}
	for i := range vals {
		vals[i] = fillV
	}
	if n > 0 {
		for p := range sym {
			switch zzTypeNames[ti] {
			case "binary":
				vals[p] = int(rt.Byte(rt.N("e", p)))
			case "boolean":
				vals[p] = rt.Bool(rt.N("e", p))
			case "i1", "i2", "i4", "i8":
				vals[p] = rt.Int8(rt.N("e", p))
			case "u1", "u2", "u4", "u8":
				vals[p] = rt.Uint8(rt.N("e", p))
			}
		}
	}
	// ASCII: the first two characters and the last one are arbitrary bytes (any byte values,
	// so also multi-byte UTF-8 sequences); whether such text is accepted is C12's subject,
	// here: whatever is accepted has a length field equal to its payload
	var asciiBytes []byte
	sevenBit := true
	if zzTypeNames[ti] == "ascii" {
		asciiBytes = make([]byte, n)
		for i := range asciiBytes {
			asciiBytes[i] = 'x'
		}
		if n <= 70000 {
			for _, p := range []int{0, 1, n - 1} {
				if p >= 0 && p < n && asciiBytes[p] == 'x' {
					asciiBytes[p] = rt.Byte(rt.N("c", p))
					rt.Assume(asciiBytes[p] != 'x')
					if asciiBytes[p] >= 0x80 {
						sevenBit = false
					}
				}
			}
		}
	}
	var node ItemNode
	panicked := rt.Try(func() {
		switch zzTypeNames[ti] {
		case "list":
			node = NewListNode(vals...)
		case "binary":
			node = NewBinaryNode(vals...)
		case "boolean":
			node = NewBooleanNode(vals...)
		case "ascii":
			if rt.Param("via") == 1 {
				// the same text through the second way to make an ASCII item: filling an unbounded variable
				node = NewASCIINodeVariable("v", 0, -1).FillVariables(map[string]interface{}{"v": string(asciiBytes)})
			} else {
				node = NewASCIINode(string(asciiBytes))
			}
		case "i1", "i2", "i4", "i8":
			node = NewIntNode(w, vals...)
		case "u1", "u2", "u4", "u8":
			node = NewUintNode(w, vals...)
		case "f4", "f8":
			node = NewFloatNode(w, vals...)
		}
	})
	fits := n*w <= 16777215
	if sevenBit {
		rt.Assert(panicked == !fits, "factory:constructible-iff-within-limit")
	}
	if !panicked {
		rt.Assert(node.Size() == n, "factory:size")
		if zzTypeNames[ti] == "list" && n <= 70000 {
			// element count in the header, on the first call and again after the caller wrote
			// into the slice it was given
			b := node.ToBytes()
			rt.Assert(len(b) > 0 && zzHeaderOK(b, 0, n), "factory:list-header")
			total := len(b)
			for i := 0; i < 4 && i < len(b); i++ {
				b[i] ^= 0xff
			}
			b2 := node.ToBytes()
			rt.Assert(len(b2) == total && zzHeaderOK(b2, 0, n), "factory:list-header-on-second-call")
		}
		if zzTypeNames[ti] != "list" {
			b := node.ToBytes()
			rt.Assert(len(b) > 0, "factory:encodes-non-empty")
			nlb := 1
			if n*w > 255 {
				nlb = 2
			}
			if n*w > 65535 {
				nlb = 3
			}
			rt.Assert(len(b) == 1+nlb+n*w, "factory:encoded-length")
			rt.Assert(zzHeaderOK(b, zzTypeCodes[ti], n*w), "factory:header")
			if n <= 70000 {
				for i := 0; i < 4 && i < len(b); i++ {
					b[i] ^= 0xff
				}
				b2 := node.ToBytes()
				rt.Assert(len(b2) == 1+nlb+n*w && zzHeaderOK(b2, zzTypeCodes[ti], n*w), "factory:header-on-second-call")
			}
		}
	}
	rt.Reach("end")
}

// NewEmptyListForHarness is a child for big lists (an empty list encodes to 2 bytes).
func NewEmptyListForHarness() ItemNode { return NewListNode() }
