//go:build verif

package ast

import rt "github.com/wolimst/lib-secs2-hsms-go/pkg/zzverifrt"

// ZZ_C14_req: request constructors produce exactly the HSMS control message bytes.
// Symbolic: session id, system bytes, pType, sType, reason. kind by job parameter.
func ZZ_C14_req() {
	kind := rt.Param("kind")
	sid := rt.Uint16("sid")
	sys := rt.Bytes("sys", 4)
	pType, sType, reason := rt.Byte("ptype"), rt.Byte("stype"), rt.Byte("reason")
	var m HSMSMessage
	var wantS byte
	var wantType string
	b2, b3 := byte(0), byte(0)
	wsid := sid
	switch kind {
	case 0:
		m, wantS, wantType = NewHSMSMessageSelectReq(sid, sys), 1, "select.req"
	case 1:
		m, wantS, wantType = NewHSMSMessageDeselectReq(sid, sys), 3, "deselect.req"
	case 2:
		m, wantS, wantType = NewHSMSMessageLinktestReq(sys), 5, "linktest.req"
		wsid = 0xFFFF
	case 3:
		m, wantS, wantType = NewHSMSMessageRejectReq(sid, pType, sType, sys, reason), 7, "reject.req"
		b3 = reason
		if reason == 2 {
			b2 = pType
		} else {
			b2 = sType
		}
	case 4:
		m, wantS, wantType = NewHSMSMessageSeparateReq(sid, sys), 9, "separate.req"
	}
	b := m.ToBytes()
	rt.Assert(len(b) == 14, "len14")
	rt.Assert(b[0] == 0 && b[1] == 0 && b[2] == 0 && b[3] == 10, "length-field")
	rt.Assert(b[4] == byte(wsid>>8) && b[5] == byte(wsid), "session-id")
	rt.Assert(b[6] == b2, "byte2")
	rt.Assert(b[7] == b3, "byte3")
	rt.Assert(b[8] == 0, "ptype0")
	rt.Assert(b[9] == wantS, "stype")
	rt.Assert(b[10] == sys[0] && b[11] == sys[1] && b[12] == sys[2] && b[13] == sys[3], "system-bytes")
	rt.Assert(m.Type() == wantType, "type")
	rt.Reach("end")
}

func zzReq(kind int, sid uint16, sys []byte) HSMSMessage {
	switch kind {
	case 0:
		return NewHSMSMessageSelectReq(sid, sys)
	case 1:
		return NewHSMSMessageDeselectReq(sid, sys)
	case 2:
		return NewHSMSMessageLinktestReq(sys)
	case 3:
		return NewHSMSMessageRejectReq(sid, rt.Byte("rq_ptype"), rt.Byte("rq_stype"), sys, rt.Byte("rq_reason"))
	case 4:
		return NewHSMSMessageSeparateReq(sid, sys)
	case 5:
		return NewHSMSControlMessage(rt.Bytes("rq_hdr", 10))
	}
	return NewHSMSDataMessage("", 1, 1, 0, "H->E", NewEmptyItemNode(), int(sid), sys)
}

// ZZ_C14_rsp: response constructors echo session id and system bytes of the request they
// answer and refuse (panic) a request of any other kind.  rsp: 0 select, 1 deselect, 2 linktest.
func ZZ_C14_rsp() {
	rsp := rt.Param("rsp")
	reqKind := rt.Param("req") // 0..4 request constructors, 5 generic control message, 6 data message
	sid := rt.Uint16("sid")
	sys := rt.Bytes("sys", 4)
	status := rt.Byte("status")
	req := zzReq(reqKind, sid, sys)
	reqBytes := req.ToBytes()
	var m HSMSMessage
	panicked := rt.Try(func() {
		switch rsp {
		case 0:
			m = NewHSMSMessageSelectRsp(req, status)
		case 1:
			m = NewHSMSMessageDeselectRsp(req, status)
		case 2:
			m = NewHSMSMessageLinktestRsp(req)
		}
	})
	wantType := []string{"select.req", "deselect.req", "linktest.req"}[rsp]
	right := req.Type() == wantType
	if !right {
		rt.Assert(panicked, "rsp:refuses-wrong-kind")
		rt.Reach("end")
		return
	}
	rt.Assert(!panicked, "rsp:accepts-right-kind")
	b := m.ToBytes()
	rt.Assert(len(b) == 14, "rsp:len14")
	rt.Assert(b[0] == 0 && b[1] == 0 && b[2] == 0 && b[3] == 10, "rsp:length-field")
	if rsp == 2 {
		rt.Assert(b[4] == 0xFF && b[5] == 0xFF, "rsp:linktest-session-ffff")
		rt.Assert(b[7] == 0, "rsp:byte3")
	} else {
		rt.Assert(b[4] == reqBytes[4] && b[5] == reqBytes[5], "rsp:echo-session")
		rt.Assert(b[7] == status, "rsp:status-byte3")
	}
	rt.Assert(b[6] == 0, "rsp:byte2")
	rt.Assert(b[8] == 0, "rsp:ptype0")
	rt.Assert(b[9] == []byte{2, 4, 6}[rsp], "rsp:stype")
	rt.Assert(b[10] == reqBytes[10] && b[11] == reqBytes[11] && b[12] == reqBytes[12] && b[13] == reqBytes[13], "rsp:echo-system-bytes")
	rt.Assert(m.Type() == []string{"select.rsp", "deselect.rsp", "linktest.rsp"}[rsp], "rsp:type")
	rt.Reach("end")
}

// ZZ_C14_type: Type() is a total function of (PType, SType): all 65536 pairs.
func ZZ_C14_type() {
	hdr := rt.Bytes("hdr", 10)
	m := NewHSMSControlMessage(hdr)
	want := "undefined"
	if hdr[4] == 0 {
		switch hdr[5] {
		case 1:
			want = "select.req"
		case 2:
			want = "select.rsp"
		case 3:
			want = "deselect.req"
		case 4:
			want = "deselect.rsp"
		case 5:
			want = "linktest.req"
		case 6:
			want = "linktest.rsp"
		case 7:
			want = "reject.req"
		case 9:
			want = "separate.req"
		}
	}
	rt.Assert(m.Type() == want, "type:table")
	b := m.ToBytes()
	rt.Assert(len(b) == 14, "generic:len14")
	rt.Assert(b[0] == 0 && b[1] == 0 && b[2] == 0 && b[3] == 10, "generic:length-field")
	for i := 0; i < 10; i++ {
		rt.Assert(b[4+i] == hdr[i], "generic:header-bytes")
	}
	rt.Reach("end")
}

// ZZ_C14_generic: the generic constructor pads a short header with zeros and cuts a long one
// to 10 bytes (as the data-message constructor does for system bytes); it never panics.
func ZZ_C14_generic() {
	n := rt.Param("len")
	hdr := rt.Bytes("hdr", n)
	var m HSMSMessage
	panicked := rt.Try(func() { m = NewHSMSControlMessage(hdr) })
	rt.Assert(!panicked, "generic:no-panic")
	b := m.ToBytes()
	rt.Assert(len(b) == 14, "generic:len14")
	for i := 0; i < 10; i++ {
		if i < n {
			rt.Assert(b[4+i] == hdr[i], "generic:copied")
		} else {
			rt.Assert(b[4+i] == 0, "generic:zero-padded")
		}
	}
	// "the given header": the message keeps what it was given when the caller goes on to use its slice
	typ := m.Type()
	for i := range hdr {
		hdr[i] ^= rt.Byte(rt.N("mask", i))
	}
	rt.Assert(rt.BytesEq(m.ToBytes(), b), "generic:keeps-given-header")
	rt.Assert(m.Type() == typ, "generic:keeps-type")
	rt.Reach("end")
}
