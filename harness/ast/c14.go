//go:build verif

package ast

import rt "github.com/wolimst/lib-secs2-hsms-go/pkg/zzverifrt"

// ZZ_C14_req: request constructors produce exactly the HSMS control message bytes.
// Symbolic: session id, system bytes, pType, sType, reason. kind by job parameter.
func ZZ_C14_req() {
	kind := rt.Param("kind")
	sid := rt.Uint16("sid")
	sys := rt.Bytes("sys", 4)
	pType, sType, reason := rt.Byte("ptype"), rt.Byte("stype"), rt.Byte("reason")
	var m HSMSMessage
	var wantS byte
	var wantType string
	b2, b3 := byte(0), byte(0)
	wsid := sid
	switch kind {
	case 0:
		m, wantS, wantType = NewHSMSMessageSelectReq(sid, sys), 1, "select.req"
	case 1:
		m, wantS, wantType = NewHSMSMessageDeselectReq(sid, sys), 3, "deselect.req"
	case 2:
		m, wantS, wantType = NewHSMSMessageLinktestReq(sys), 5, "linktest.req"
		wsid = 0xFFFF
	case 3:
		m, wantS, wantType = NewHSMSMessageRejectReq(sid, pType, sType, sys, reason), 7, "reject.req"
		b3 = reason
		if reason == 2 {
			b2 = pType
		} else {
			b2 = sType
		}
	case 4:
		m, wantS, wantType = NewHSMSMessageSeparateReq(sid, sys), 9, "separate.req"
	}
	b := m.ToBytes()
	rt.Assert(len(b) == 14, "len14")
	rt.Assert(b[0] == 0 && b[1] == 0 && b[2] == 0 && b[3] == 10, "length-field")
	rt.Assert(b[4] == byte(wsid>>8) && b[5] == byte(wsid), "session-id")
	rt.Assert(b[6] == b2, "byte2")
	rt.Assert(b[7] == b3, "byte3")
	rt.Assert(b[8] == 0, "ptype0")
	rt.Assert(b[9] == wantS, "stype")
	rt.Assert(b[10] == sys[0] && b[11] == sys[1] && b[12] == sys[2] && b[13] == sys[3], "system-bytes")
	rt.Assert(m.Type() == wantType, "type")
	rt.Reach("end")
}
