//go:build verif

package ast

import rt "github.com/wolimst/lib-secs2-hsms-go/pkg/zzverifrt"

// leaf kinds for the template harnesses: 0 I<w>, 1 U<w>, 2 F<w>, 3 B, 4 BOOLEAN
func zzMkLeaf(kind, w int, slots []interface{}) ItemNode {
	switch kind {
	case 0:
		return NewIntNode(w, slots...)
	case 1:
		return NewUintNode(w, slots...)
	case 2:
		return NewFloatNode(w, slots...)
	case 3:
		return NewBinaryNode(slots...)
	}
	return NewBooleanNode(slots...)
}

// zzSlotValue draws an arbitrary value of the Go type the factory of `kind` takes.
func zzSlotValue(kind int, name string) interface{} {
	switch kind {
	case 0:
		return rt.Int64(name)
	case 1:
		return rt.Uint64(name)
	case 2:
		return rt.Float64(name)
	case 3:
		return rt.Int(name)
	}
	return rt.Bool(name)
}

var zzNames = []string{"a", "b", "c", "d"}

func zzSameItem(x, y ItemNode, tag string) {
	rt.Assert(rt.StrsEq(x.Variables(), y.Variables()), tag+":variables")
	rt.Assert(x.Size() == y.Size(), tag+":size")
	rt.Assert(rt.BytesEq(x.ToBytes(), y.ToBytes()), tag+":bytes")
	xs, _ := x.(interface{ String() string })
	ys, _ := y.(interface{ String() string })
	rt.Assert(rt.StrEq(xs.String(), ys.String()), tag+":string")
}

// ZZ_C09_leaf: a leaf template with n slots, `vars` (bit mask) of them variables; a fill of
// the subset `fill` (plus an unknown key) in one step and split over two steps equals the
// directly constructed node, and is refused exactly when the constructor refuses.
func ZZ_C09_leaf() {
	kind, w, n := rt.Param("kind"), rt.Param("w"), rt.Param("n")
	vars, fill := rt.Param("vars"), rt.Param("fill")
	tmplSlots := make([]interface{}, n)
	directSlots := make([]interface{}, n)
	remain := make([]interface{}, n)
	values := map[string]interface{}{"zz_unknown": zzSlotValue(kind, "unk")}
	for i := 0; i < n; i++ {
		if vars&(1<<uint(i)) != 0 {
			tmplSlots[i] = zzNames[i]
			if fill&(1<<uint(i)) != 0 {
				v := zzSlotValue(kind, rt.N("fv", i))
				values[zzNames[i]] = v
				directSlots[i] = v
			} else {
				directSlots[i] = zzNames[i]
			}
		} else {
			c := zzSlotValue(kind, rt.N("c", i))
			tmplSlots[i], directSlots[i] = c, c
		}
		remain[i] = directSlots[i]
	}
	var tmpl ItemNode
	if rt.Try(func() { tmpl = zzMkLeaf(kind, w, tmplSlots) }) {
		rt.Assume(false) // constants outside the item's domain: no template
	}
	var direct, filled ItemNode
	pd := rt.Try(func() { direct = zzMkLeaf(kind, w, directSlots) })
	pf := rt.Try(func() { filled = tmpl.FillVariables(values) })
	rt.Assert(pd == pf, "fill:refused-iff-constructor-refuses")
	if pd {
		rt.Reach("end")
		return
	}
	zzSameItem(filled, direct, "fill")
	// the template itself is unchanged
	var again ItemNode
	rt.Try(func() { again = zzMkLeaf(kind, w, tmplSlots) })
	zzSameItem(tmpl, again, "template-unchanged")
	// two steps: keys with bit set in `split` first, the others second
	split := rt.Choice("split", 1<<uint(n))
	m1 := map[string]interface{}{}
	m2 := map[string]interface{}{"zz_unknown": values["zz_unknown"]}
	for i := 0; i < n; i++ {
		if v, ok := values[zzNames[i]]; ok {
			if split&(1<<uint(i)) != 0 {
				m1[zzNames[i]] = v
			} else {
				m2[zzNames[i]] = v
			}
		}
	}
	var two ItemNode
	p2 := rt.Try(func() { two = tmpl.FillVariables(m1).FillVariables(m2) })
	rt.Assert(!p2, "fill:two-steps-accepted")
	zzSameItem(two, direct, "two-step")
	rt.Reach("end")
}

// ZZ_C09_ascii: an ASCII variable (length bounds lo..hi) filled with a string of k bytes.
func ZZ_C09_ascii() {
	k := rt.Param("k")
	lo, hi := rt.Param("lo"), rt.Param("hi")
	tmpl := NewASCIINodeVariable("s", lo, hi)
	str := rt.String("s", k)
	var filled, direct ItemNode
	pf := rt.Try(func() { filled = tmpl.FillVariables(map[string]interface{}{"s": str, "other": 1}) })
	pd := rt.Try(func() { direct = NewASCIINode(str) })
	inBounds := k >= lo && (hi == -1 || k <= hi)
	if inBounds {
		rt.Assert(pf == pd, "ascii-fill:refused-iff-constructor-refuses")
		if !pf {
			zzSameItem(filled, direct, "ascii-fill")
		}
	} else {
		rt.Assert(pf, "ascii-fill:length-outside-bounds-refused")
	}
	un := tmpl.FillVariables(map[string]interface{}{"t": "x"})
	zzSameItem(un, NewASCIINodeVariable("s", lo, hi), "ascii-unfilled")
	rt.Assert(rt.Try(func() { tmpl.FillVariables(map[string]interface{}{"s": 5}) }), "ascii-fill:non-string-refused")
	rt.Reach("end")
}

// zzListTemplate builds <L <I1 a c0> lv <A s> <L <BOOLEAN t c1> <U2 c2 u>> > with the
// given slot contents (a name string keeps the variable, anything else is the value).
func zzListTemplate(a, lv, s, t, u interface{}, c0 int8, c1 bool, c2 uint16) ItemNode {
	var asc interface{}
	if name, ok := s.(string); ok && name == "s" {
		asc = NewASCIINodeVariable("s", 0, -1)
	} else {
		asc = NewASCIINode(s.([]string)[0])
	}
	return NewListNode(NewIntNode(1, a, c0), lv, asc, NewListNode(NewBooleanNode(t, c1), NewUintNode(2, c2, u)))
}

// ZZ_C09_list: fills of any subset of {a, lv, s, t, u} in a nested list template, in one
// step and split in two, against the directly constructed list.
func ZZ_C09_list() {
	fill := rt.Param("fill") // bit mask over a, lv, s, t, u
	c0, c1, c2 := rt.Int8("c0"), rt.Bool("c1"), rt.Uint16("c2")
	names := []string{"a", "lv", "s", "t", "u"}
	fv := []interface{}{rt.Int64("fa"), NewUintNode(1, rt.Uint8("flv")), rt.String("fs", 2), rt.Bool("ft"), rt.Uint64("fu")}
	slots := make([]interface{}, 5)
	// keys unknown to the template are ignored, whatever they look like and whatever they hold
	values := map[string]interface{}{"nope": 1, "...[9]": "zz", "...": int64(3), "a[0]": nil}
	// lvkind: the item inserted for lv brings its own variable, and the same map has a value
	// under that name: 1 a name unknown to the template, 2 the name of template variable a
	// (consumed by the same fill).  The inserted item is inserted as is.
	lvkind := rt.Param("lvkind")
	switch lvkind {
	case 1:
		fv[1] = NewIntNode(2, "n", rt.Int16("flv2"))
		values["n"] = 9
	case 2:
		fv[1] = NewUintNode(1, "a", rt.Uint8("flv"))
	}
	for i, nm := range names {
		slots[i] = nm
		if fill&(1<<uint(i)) != 0 {
			values[nm] = fv[i]
			slots[i] = fv[i]
			if nm == "s" {
				slots[i] = []string{fv[i].(string)}
			}
		}
	}
	tmpl := zzListTemplate("a", "lv", "s", "t", "u", c0, c1, c2)
	var direct, filled ItemNode
	pd := rt.Try(func() { direct = zzListTemplate(slots[0], slots[1], slots[2], slots[3], slots[4], c0, c1, c2) })
	pf := rt.Try(func() { filled = tmpl.FillVariables(values) })
	rt.Assert(pd == pf, "list-fill:refused-iff-constructor-refuses")
	if pd {
		rt.Reach("end")
		return
	}
	zzSameItem(filled, direct, "list-fill")
	zzSameItem(tmpl, zzListTemplate("a", "lv", "s", "t", "u", c0, c1, c2), "list-template-unchanged")
	if lvkind == 2 {
		rt.Reach("end") // in two steps the inserted variable a would meet the template's own a
		return
	}
	split := rt.Choice("split", 32)
	m1, m2 := map[string]interface{}{}, map[string]interface{}{}
	for i, nm := range names {
		if v, ok := values[nm]; ok {
			if split&(1<<uint(i)) != 0 {
				m1[nm] = v
			} else {
				m2[nm] = v
			}
		}
	}
	var two ItemNode
	p2 := rt.Try(func() { two = tmpl.FillVariables(m1).FillVariables(m2) })
	rt.Assert(!p2, "list-fill:two-steps-accepted")
	zzSameItem(two, direct, "list-two-step")
	rt.Reach("end")
}

// ZZ_C09_message: a template message completed by FillVariables, SetWaitBit and
// SetSessionIDAndSystemBytes (in any of the 6 orders) encodes to the bytes of the
// directly constructed complete message.
func ZZ_C09_message() {
	order := rt.Param("order")
	st, fn := int(rt.Byte("stream")&0x7f), int(rt.Byte("function"))
	wb := rt.Bool("wbit")
	rt.Assume(rt.Or(!wb, fn%2 == 1))
	sid := int(rt.Uint16("sid"))
	sys := rt.Bytes("sys", 4)
	x, y := rt.Int16("x"), rt.Uint8("y")
	tmpl := NewDataMessage("name", st, fn, 2, "H->E", NewListNode(NewIntNode(2, "x"), NewBinaryNode("y", 7)))
	vals := map[string]interface{}{"x": x, "y": int(y)}
	m := tmpl
	steps := [][3]int{{0, 1, 2}, {0, 2, 1}, {1, 0, 2}, {1, 2, 0}, {2, 0, 1}, {2, 1, 0}}[order]
	for _, s := range steps {
		rt.Assert(len(m.ToBytes()) == 0, "message:incomplete-encodes-to-nothing")
		switch s {
		case 0:
			m = m.FillVariables(vals)
		case 1:
			m = m.SetWaitBit(wb)
		case 2:
			m = m.SetSessionIDAndSystemBytes(sid, sys)
		}
	}
	wbi := 0
	if wb {
		wbi = 1
	}
	direct := NewHSMSDataMessage("name", st, fn, wbi, "H->E", NewListNode(NewIntNode(2, x), NewBinaryNode(int(y), 7)), sid, sys)
	rt.Assert(rt.BytesEq(m.ToBytes(), direct.ToBytes()), "message:completed-bytes")
	rt.Assert(len(m.ToBytes()) > 0, "message:completed-encodes")
	rt.Assert(rt.StrEq(m.String(), direct.String()), "message:completed-string")
	rt.Reach("end")
}
