//go:build verif

package ast

import (
	"fmt"

	rt "github.com/wolimst/lib-secs2-hsms-go/pkg/zzverifrt"
)

// zzRec is the harness's own record of the eight observable message fields.
type zzRec struct {
	name      string
	stream    int
	function  int
	waitBit   int // 0 false, 1 true, 2 optional
	direction string
	item      ItemNode
	sessionID int
	sys       []byte
}

func zzWaitName(w int) string { return []string{"false", "true", "optional"}[w] }

func zzHeaderText(r *zzRec) string {
	// "S<stream>F<function>[ W| [W]] <direction>[ <name>]" as documented
	h := fmt.Sprintf("S%dF%d", r.stream, r.function)
	switch r.waitBit {
	case 1:
		h += " W"
	case 2:
		h += " [W]"
	}
	h += " " + r.direction
	if r.name != "" {
		h += " " + r.name
	}
	return h
}

// zzAgree asserts that every observer of m agrees with the record.
func zzAgree(m *DataMessage, r *zzRec, tag string) {
	rt.Assert(rt.StrEq(m.Name(), r.name), tag+":name")
	rt.Assert(m.StreamCode() == r.stream, tag+":stream")
	rt.Assert(m.FunctionCode() == r.function, tag+":function")
	rt.Assert(m.WaitBit() == zzWaitName(r.waitBit), tag+":wait-bit")
	rt.Assert(m.Direction() == r.direction, tag+":direction")
	rt.Assert(m.SessionID() == r.sessionID, tag+":session-id")
	rt.Assert(rt.BytesEq(m.SystemBytes(), r.sys), tag+":system-bytes")
	rt.Assert(m.Type() == "data message", tag+":type")
	rt.Assert(rt.StrsEq(m.Variables(), r.item.Variables()), tag+":variables")
	is, _ := r.item.(interface{ String() string })
	want := zzHeaderText(r) + "\n" + is.String() + "\n."
	rt.Assert(rt.StrEq(m.Header(), zzHeaderText(r)), tag+":header")
	rt.Assert(rt.StrEq(m.String(), want), tag+":string")
	complete := r.waitBit != 2 && r.sessionID != -1 && len(r.item.Variables()) == 0
	b := m.ToBytes()
	if !complete {
		rt.Assert(len(b) == 0, tag+":incomplete-no-bytes")
		return
	}
	ib := r.item.ToBytes()
	rt.Assert(len(b) == 14+len(ib), tag+":bytes-length")
	n := 10 + len(ib)
	rt.Assert(b[0] == byte(n>>24) && b[1] == byte(n>>16) && b[2] == byte(n>>8) && b[3] == byte(n), tag+":bytes-msglen")
	rt.Assert(int(b[4])<<8|int(b[5]) == r.sessionID, tag+":bytes-session")
	rt.Assert(int(b[6]) == r.waitBit<<7|r.stream, tag+":bytes-wbit-stream")
	rt.Assert(int(b[7]) == r.function, tag+":bytes-function")
	rt.Assert(b[8] == 0 && b[9] == 0, tag+":bytes-ptype-stype")
	rt.Assert(rt.BytesEq(b[10:14], r.sys), tag+":bytes-system")
	rt.Assert(rt.BytesEq(b[14:], ib), tag+":bytes-item")
}

// ZZ_C18_producers: a message (wait bit state w0, with/without session id) followed by a
// sequence of `steps` producer calls chosen freely among SetWaitBit, SetSessionIDAndSystemBytes
// (session id unconstrained, system bytes of length 0..6) and FillVariables; after every call
// all observers agree with a field record updated by the specification of that call; a call
// whose result would be invalid panics and leaves the receiver unchanged.
func ZZ_C18_producers() {
	w0, steps := rt.Param("w0"), rt.Param("steps")
	fn := int(rt.Byte("function"))
	st := int(rt.Byte("stream") & 0x7f)
	if w0 == 1 {
		rt.Assume(fn%2 == 1)
	}
	dir := []string{"H->E", "H<-E", "H<->E"}[rt.Choice("dir", 3)]
	name := []string{"", "Msg_1"}[rt.Choice("name", 2)]
	c := rt.Int8("c")
	item := NewListNode(NewIntNode(1, c, "x"), NewASCIINodeVariable("s", 0, 2))
	rec := &zzRec{name, st, fn, w0, dir, item, -1, []byte{0, 0, 0, 0}}
	m := NewDataMessage(name, st, fn, w0, dir, item)
	zzAgree(m, rec, "new")
	for i := 0; i < steps; i++ {
		before := m
		var next *DataMessage
		op := rt.Choice(rt.N("op", i), 3)
		switch op {
		case 0:
			wv := rt.Bool(rt.N("w", i))
			p := rt.Try(func() { next = m.SetWaitBit(wv) })
			if rec.waitBit != 2 {
				rt.Assert(!p, "set-wait-bit:decided-never-refused")
				rt.Assert(next == m || true, "set-wait-bit:decided-equal")
			} else {
				bad := rt.And(wv, fn%2 == 0)
				rt.Assert(p == bad, "set-wait-bit:refused-iff-W-on-even-function")
				if !p {
					rec.waitBit = rt.Ite(wv, 1, 0)
				}
			}
			if p {
				next = before
			}
		case 1:
			sid := rt.Int(rt.N("sid", i))
			k := rt.Choice(rt.N("sysn", i), 7)
			sys := rt.Bytes(rt.N("sys", i), k)
			p := rt.Try(func() { next = m.SetSessionIDAndSystemBytes(sid, sys) })
			okSid := rt.And(sid >= -1, sid <= 65535)
			rt.Assert(p == !okSid, "set-session:refused-iff-out-of-range")
			if p {
				next = before
			} else {
				rec.sessionID = sid
				ns := []byte{0, 0, 0, 0}
				for j := 0; j < 4 && j < k; j++ {
					ns[j] = sys[j]
				}
				rec.sys = ns
				// the caller's slice is not retained
				if k > 0 {
					sys[0] ^= 0xff
				}
			}
		case 2:
			which := rt.Choice(rt.N("fill", i), 3)
			vals := map[string]interface{}{}
			x := rt.Int8(rt.N("fx", i))
			sv := rt.String(rt.N("fs", i), 1)
			rt.Assume(sv[0] < 0x80)
			if which&1 == 0 {
				vals["x"] = x
			}
			if which >= 1 {
				vals["s"] = sv
			}
			p := rt.Try(func() { next = m.FillVariables(vals) })
			rt.Assert(!p, "fill:accepted")
			rec.item = rec.item.FillVariables(vals)
		}
		m = next
		zzAgree(m, rec, "after")
	}
	rt.Reach("end")
}
