//go:build verif

package ast

import (
	"math"

	rt "github.com/wolimst/lib-secs2-hsms-go/pkg/zzverifrt"
)

// zzIntArg draws an arbitrary value of one Go integer type (gt: 0 int, 1 int8, 2 int16,
// 3 int32, 4 int64, 5 uint, 6 uint8, 7 uint16, 8 uint32, 9 uint64) and returns it boxed,
// with its mathematical value as (negative?, magnitude-or-value) views.
func zzIntArg(gt int, name string) (v interface{}, sx int64, ux uint64, signed bool) {
	switch gt {
	case 0:
		x := rt.Int(name + "_int")
		return x, int64(x), uint64(x), true
	case 1:
		x := rt.Int8(name + "_i8")
		return x, int64(x), uint64(x), true
	case 2:
		x := rt.Int16(name + "_i16")
		return x, int64(x), uint64(x), true
	case 3:
		x := rt.Int32(name + "_i32")
		return x, int64(x), uint64(x), true
	case 4:
		x := rt.Int64(name + "_i64")
		return x, x, uint64(x), true
	case 5:
		x := rt.Uint(name + "_uint")
		return x, int64(x), uint64(x), false
	case 6:
		x := rt.Uint8(name + "_u8")
		return x, int64(x), uint64(x), false
	case 7:
		x := rt.Uint16(name + "_u16")
		return x, int64(x), uint64(x), false
	case 8:
		x := rt.Uint32(name + "_u32")
		return x, int64(x), uint64(x), false
	}
	x := rt.Uint64(name + "_u64")
	return x, int64(x), x, false
}

func zzBE(p []byte, w int) uint64 {
	var u uint64
	for j := 0; j < w; j++ {
		u = u<<8 | uint64(p[j])
	}
	return u
}

func zzMaskW(w int) uint64 {
	if w == 8 {
		return math.MaxUint64
	}
	return 1<<(8*uint(w)) - 1
}

// ZZ_C12_int: NewIntNode(byteSize, v) for every value v of Go type gt: returns => v is in
// the I<w> range and the printed/encoded value is v; out of range => panic.
func ZZ_C12_int() {
	w, gt := rt.Param("w"), rt.Param("gt")
	v, sx, ux, signed := zzIntArg(gt, "v")
	var node ItemNode
	panicked := rt.Try(func() { node = NewIntNode(w, v) })
	if w != 1 && w != 2 && w != 4 && w != 8 {
		rt.Assert(panicked, "int:invalid-byte-size-refused")
		rt.Reach("end")
		return
	}
	max := int64(1)<<(8*uint(w)-1) - 1
	min := -max - 1
	var inRange bool
	if signed {
		inRange = rt.And(min <= sx, sx <= max)
	} else {
		inRange = ux <= uint64(max)
	}
	rt.Assert(panicked == !inRange, "int:accepts-iff-in-range")
	if !panicked {
		b := node.ToBytes()
		rt.Assert(len(b) == 2+w, "int:encoded-length")
		rt.Assert(zzBE(b[2:], w) == ux&zzMaskW(w), "int:encoded-value")
		rt.Assert(node.(*IntNode).values[0] == sx, "int:stored-value")
		rt.Assert(node.Size() == 1, "int:size")
	}
	rt.Reach("end")
}

// ZZ_C12_uint: the same for NewUintNode; negative arguments must be refused.
func ZZ_C12_uint() {
	w, gt := rt.Param("w"), rt.Param("gt")
	v, sx, ux, signed := zzIntArg(gt, "v")
	var node ItemNode
	panicked := rt.Try(func() { node = NewUintNode(w, v) })
	if w != 1 && w != 2 && w != 4 && w != 8 {
		rt.Assert(panicked, "uint:invalid-byte-size-refused")
		rt.Reach("end")
		return
	}
	max := zzMaskW(w)
	var inRange bool
	if signed {
		inRange = rt.And(sx >= 0, uint64(sx) <= max)
	} else {
		inRange = ux <= max
	}
	rt.Assert(panicked == !inRange, "uint:accepts-iff-in-range")
	if !panicked {
		b := node.ToBytes()
		rt.Assert(len(b) == 2+w, "uint:encoded-length")
		rt.Assert(zzBE(b[2:], w) == ux, "uint:encoded-value")
		rt.Assert(node.(*UintNode).values[0] == ux, "uint:stored-value")
	}
	rt.Reach("end")
}

// ZZ_C12_float: NewFloatNode(w, v) for integer arguments of every Go type and for
// float32/float64 arguments (gt 10, 11): returns => finite, within the F<w> range, and the
// encoded bits are v rounded (to nearest even) to the item's width.
func ZZ_C12_float() {
	w, gt := rt.Param("w"), rt.Param("gt")
	var v interface{}
	var f float64
	switch gt {
	case 10:
		x := rt.Float32("v_f32")
		v, f = x, float64(x)
	case 11:
		x := rt.Float64("v_f64")
		v, f = x, x
	default:
		var sx int64
		var ux uint64
		var signed bool
		v, sx, ux, signed = zzIntArg(gt, "v")
		if signed {
			f = float64(sx)
		} else {
			f = float64(ux)
		}
	}
	var node ItemNode
	panicked := rt.Try(func() { node = NewFloatNode(w, v) })
	if w != 4 && w != 8 {
		rt.Assert(panicked, "float:invalid-byte-size-refused")
		rt.Reach("end")
		return
	}
	max := math.MaxFloat64
	if w == 4 {
		max = math.MaxFloat32
	}
	ok := rt.And(f >= -max, f <= max) // false for NaN
	rt.Assert(panicked == !ok, "float:accepts-iff-finite-in-range")
	if !panicked {
		b := node.ToBytes()
		rt.Assert(len(b) == 2+w, "float:encoded-length")
		if w == 8 {
			rt.Assert(zzBE(b[2:], 8) == math.Float64bits(f), "float:encoded-bits")
		} else {
			rt.Assert(uint32(zzBE(b[2:], 4)) == math.Float32bits(float32(f)), "float:encoded-bits")
		}
	}
	rt.Reach("end")
}

// ZZ_C12_binary_int: NewBinaryNode(v) for every int v: returns iff 0 <= v <= 255.
func ZZ_C12_binary_int() {
	x := rt.Int("v")
	var node ItemNode
	panicked := rt.Try(func() { node = NewBinaryNode(x) })
	rt.Assert(panicked == !rt.And(x >= 0, x <= 255), "binary:accepts-iff-byte")
	if !panicked {
		b := node.ToBytes()
		rt.Assert(len(b) == 3, "binary:encoded-length")
		rt.Assert(int(b[2]) == x, "binary:encoded-value")
	}
	rt.Reach("end")
}

// ZZ_C12_binary_str: NewBinaryNode("0b" + k arbitrary bytes): returns => the bytes are
// binary digits denoting the stored value (<= 255); anything else is refused.
// Strings containing '_' are left unconstrained (Go's base-prefix literal syntax allows
// digit separators; the documentation does not say).
func ZZ_C12_binary_str() {
	k := rt.Param("k")
	digits := rt.String("d", k)
	val, wellFormed := 0, k > 0
	for i := 0; i < k; i++ {
		c := digits[i]
		rt.Assume(c != '_')
		if rt.ParamOr("bits", 0) == 1 {
			// long literals: every character a binary digit (9 and more significant bits, literals
			// longer than an int64, leading zeros)
			rt.Assume(rt.Or(c == '0', c == '1'))
		}
		if c == '0' || c == '1' {
			if val < 256 {
				val = val*2 + int(c-'0')
			}
		} else {
			wellFormed = false
		}
	}
	// a concrete run of digits in front of the symbolic ones: "1010..." (9 and more significant bits,
	// literals longer than an int64) or zeros (long literals of a small value)
	prefix := ""
	for i := 0; i < rt.ParamOr("pre", 0); i++ {
		d := (i + 1) % 2
		if rt.ParamOr("pz", 0) == 1 {
			d = 0
		}
		prefix += string(rune('0' + d))
	}
	if prefix != "" {
		pv := 0
		for i := 0; i < len(prefix); i++ {
			if pv < 256 {
				pv = pv*2 + int(prefix[i]-'0')
			}
		}
		// value of prefix followed by the k symbolic digits, saturating above 255
		v2, ok2 := pv, true
		for i := 0; i < k; i++ {
			c := digits[i]
			if c == '0' || c == '1' {
				if v2 < 256 {
					v2 = v2*2 + int(c-'0')
				}
			} else {
				ok2 = false
			}
		}
		val, wellFormed = v2, ok2
	}
	var node ItemNode
	panicked := rt.Try(func() { node = NewBinaryNode("0b" + prefix + digits) })
	if !wellFormed || val > 255 {
		rt.Assert(panicked, "binary-string:malformed-or-overflow-refused")
	} else {
		rt.Assert(!panicked, "binary-string:well-formed-accepted")
		b := node.ToBytes()
		rt.Assert(len(b) == 3, "binary-string:encoded-length")
		rt.Assert(int(b[2]) == val, "binary-string:encoded-value")
	}
	rt.Reach("end")
}

// ZZ_C12_wrongtype: values of a Go type the factory does not take are refused.
func ZZ_C12_wrongtype() {
	which := rt.Param("which")
	var p bool
	switch which {
	case 0:
		p = rt.Try(func() { NewBinaryNode(rt.Uint8("v")) })
	case 1:
		p = rt.Try(func() { NewBinaryNode(rt.Int64("v")) })
	case 2:
		p = rt.Try(func() { NewBooleanNode(rt.Int("v")) })
	case 3:
		p = rt.Try(func() { NewIntNode(1, rt.Float64("v")) })
	case 4:
		p = rt.Try(func() { NewIntNode(1, rt.Bool("v")) })
	case 5:
		p = rt.Try(func() { NewUintNode(1, rt.Float32("v")) })
	case 6:
		p = rt.Try(func() { NewFloatNode(4, rt.Bool("v")) })
	case 7:
		p = rt.Try(func() { NewListNode(rt.Int("v")) })
	case 8:
		p = rt.Try(func() { NewListNode(nil) })
	}
	rt.Assert(p, "wrong-go-type-refused")
	rt.Reach("end")
}

// ZZ_C12_boolean: NewBooleanNode stores exactly the booleans passed.
func ZZ_C12_boolean() {
	a, b := rt.Bool("a"), rt.Bool("b")
	node := NewBooleanNode(a, b)
	bs := node.ToBytes()
	rt.Assert(len(bs) == 4, "boolean:encoded-length")
	rt.Assert(bs[2] == byte(rt.Ite(a, 1, 0)), "boolean:first")
	rt.Assert(bs[3] == byte(rt.Ite(b, 1, 0)), "boolean:second")
	rt.Reach("end")
}

// ZZ_C12_ascii: NewASCIINode(s) for every string of k bytes: returns iff every byte is
// 7-bit, and then stores exactly those bytes.
func ZZ_C12_ascii() {
	k := rt.Param("k")
	s := rt.String("s", k)
	all7 := true
	for i := 0; i < k; i++ {
		all7 = rt.And(all7, s[i] < 0x80)
	}
	var node ItemNode
	panicked := rt.Try(func() { node = NewASCIINode(s) })
	rt.Assert(panicked == !all7, "ascii:accepts-iff-7bit")
	if !panicked {
		b := node.ToBytes()
		rt.Assert(len(b) == 2+k, "ascii:encoded-length")
		for i := 0; i < k; i++ {
			rt.Assert(b[2+i] == s[i], "ascii:encoded-bytes")
		}
		rt.Assert(node.Size() == k, "ascii:size")
	}
	rt.Reach("end")
}

// zzNameOK is the documented variable-name grammar as a hand-written automaton:
// [A-Za-z_][A-Za-z0-9_]* ( '[' [0-9]+ ']' )*
func zzNameOK(s string) bool {
	isAlpha := func(c byte) bool { return c >= 'A' && c <= 'Z' || c >= 'a' && c <= 'z' || c == '_' }
	isDigit := func(c byte) bool { return c >= '0' && c <= '9' }
	if len(s) == 0 || !isAlpha(s[0]) {
		return false
	}
	i := 1
	for i < len(s) && (isAlpha(s[i]) || isDigit(s[i])) {
		i++
	}
	for i < len(s) {
		if s[i] != '[' {
			return false
		}
		i++
		j := i
		for i < len(s) && isDigit(s[i]) {
			i++
		}
		if i == j || i >= len(s) || s[i] != ']' {
			return false
		}
		i++
	}
	return true
}

// ZZ_C12_varname: a string of k arbitrary bytes used as a variable name in each node kind
// is accepted iff it is in the documented grammar ("..." forms are covered by ZZ_C12_ellipsis).
func ZZ_C12_varname() {
	k, kind := rt.Param("k"), rt.Param("kind")
	name := rt.String("n", k)
	if kind == 1 && k >= 2 {
		rt.Assume(!rt.And(name[0] == '0', name[1] == 'b')) // "0b..." is the binary literal form
	}
	want := zzNameOK(name)
	var p bool
	switch kind {
	case 0:
		p = rt.Try(func() { NewIntNode(2, name) })
	case 1:
		p = rt.Try(func() { NewBinaryNode(name) })
	case 2:
		p = rt.Try(func() { NewBooleanNode(name) })
	case 3:
		p = rt.Try(func() { NewASCIINodeVariable(name, 0, -1) })
	case 4:
		p = rt.Try(func() { NewUintNode(4, name) })
	case 5:
		p = rt.Try(func() { NewFloatNode(8, name) })
	case 6:
		// a list takes a plain name in any position; ellipsis spellings are excluded here
		if k >= 3 {
			rt.Assume(!rt.And(rt.And(name[0] == '.', name[1] == '.'), name[2] == '.'))
		}
		p = rt.Try(func() { NewListNode(NewIntNode(1, 1), name) })
	}
	rt.Assert(p == !want, "varname:accepted-iff-in-grammar")
	rt.Reach("end")
}

// ZZ_C12_ellipsis: "..." / "...[n]" is accepted only in a list, not as first item, once.
func ZZ_C12_ellipsis() {
	which := rt.Param("which")
	one := NewIntNode(1, 1)
	var p bool
	switch which {
	case 0:
		p = rt.Try(func() { NewListNode("...") })
		rt.Assert(p, "ellipsis:leading-refused")
	case 1:
		p = rt.Try(func() { NewListNode(one, "...", "...[1]") })
		rt.Assert(p, "ellipsis:second-refused")
	case 2:
		p = rt.Try(func() { NewListNode(one, "...") })
		rt.Assert(!p, "ellipsis:trailing-accepted")
	case 3:
		p = rt.Try(func() { NewListNode(one, "...[0]", one) })
		rt.Assert(!p, "ellipsis:indexed-accepted")
	case 4:
		p = rt.Try(func() { NewIntNode(1, "...") })
		rt.Assert(p, "ellipsis:refused-outside-list")
	case 5:
		p = rt.Try(func() { NewListNode(one, "...", one, "...") })
		rt.Assert(p, "ellipsis:duplicate-refused")
	case 6:
		// arbitrary suffix behind the dots: only "" or [digits]
		k := rt.Param("k")
		suf := rt.String("s", k)
		ok := k == 0
		if k >= 3 {
			ok = suf[0] == '[' && suf[k-1] == ']'
			for i := 1; i < k-1; i++ {
				ok = ok && suf[i] >= '0' && suf[i] <= '9'
			}
		}
		p = rt.Try(func() { NewListNode(one, "..."+suf) })
		rt.Assert(p == !ok, "ellipsis:suffix-grammar")
	case 7:
		// two ellipses with different spellings among plain list variables, in every
		// arrangement and under every iteration order of the list's variable map (the native
		// run repeats the call, Go randomises the order)
		names := [][]string{
			{"...", "x", "...[1]"}, {"...", "...[1]", "x"}, {"x", "...", "...[1]"},
			{"...[0]", "x", "y", "...[1]"}, {"x", "...[0]", "y", "...[1]"}, {"...[1]", "x", "...[0]", "y"},
		}[rt.Param("k")]
		rt.MapOrder(rt.Param("order"))
		reps := 1
		if !rt.IsSymbolic() {
			reps = 300
		}
		for r := 0; r < reps; r++ {
			args := []interface{}{one}
			for _, nm := range names {
				args = append(args, nm)
			}
			p = rt.Try(func() { NewListNode(args...) })
			rt.Assert(p, "ellipsis:second-refused-among-variables")
		}
		rt.MapOrder(0)
	}
	rt.Reach("end")
}

// ZZ_C12_dupnames: the same variable name twice anywhere in a tree is refused.
func ZZ_C12_dupnames() {
	which := rt.Param("which")
	var p bool
	switch which {
	case 0:
		p = rt.Try(func() { NewIntNode(1, "a", "a") })
	case 1:
		p = rt.Try(func() { NewListNode("a", "a") })
	case 2:
		p = rt.Try(func() { NewListNode(NewIntNode(1, "a"), NewUintNode(1, "a")) })
	case 3:
		p = rt.Try(func() { NewListNode(NewListNode(NewBooleanNode("a")), NewASCIINodeVariable("a", 0, -1)) })
	case 4:
		p = rt.Try(func() { NewListNode("a", NewListNode(NewBinaryNode(1, "a"))) })
	case 5:
		p = rt.Try(func() { NewFloatNode(4, "x", 1.0, "x") })
	}
	rt.Assert(p, "duplicate-name-refused")
	rt.Reach("end")
}

// ZZ_C12_message: NewDataMessage / NewHSMSDataMessage / SetSessionIDAndSystemBytes with
// unconstrained integers: accepted iff every field is in its documented range.
func ZZ_C12_message() {
	which := rt.Param("which")
	st, fn, wb, sid := rt.Int("stream"), rt.Int("function"), rt.Int("wbit"), rt.Int("sid")
	dirs := []string{"H->E", "H<-E", "H<->E", "", "E->H", "h->e"}
	di := rt.Choice("dir", len(dirs))
	base := rt.And(rt.And(st >= 0, st < 128), rt.And(fn >= 0, fn < 256))
	base = rt.And(base, di < 3)
	item := NewEmptyItemNode()
	switch which {
	case 0:
		var m *DataMessage
		p := rt.Try(func() { m = NewDataMessage("n", st, fn, wb, dirs[di], item) })
		ok := rt.And(base, rt.And(rt.And(wb >= 0, wb <= 2), !rt.And(wb == 1, fn%2 == 0)))
		rt.Assert(p == !ok, "message:accepted-iff-fields-valid")
		if !p {
			rt.Assert(rt.And(m.StreamCode() == st, m.FunctionCode() == fn), "message:stores-codes")
			rt.Assert(m.SessionID() == -1, "message:no-session-id")
		}
	case 1:
		var m *DataMessage
		p := rt.Try(func() { m = NewHSMSDataMessage("n", st, fn, wb, dirs[di], item, sid, rt.Bytes("sys", 4)) })
		ok := rt.And(base, rt.And(rt.And(wb >= 0, wb <= 1), !rt.And(wb == 1, fn%2 == 0)))
		ok = rt.And(ok, rt.And(sid >= 0, sid <= 65535))
		rt.Assert(p == !ok, "hsms-message:accepted-iff-fields-valid")
		if !p {
			b := m.ToBytes()
			rt.Assert(len(b) == 14, "hsms-message:encodes")
			rt.Assert(int(b[4])<<8|int(b[5]) == sid, "hsms-message:session-id-bytes")
			rt.Assert(int(b[6]&0x7f) == st, "hsms-message:stream-byte")
			rt.Assert(int(b[7]) == fn, "hsms-message:function-byte")
			rt.Assert(int(b[6]>>7) == wb, "hsms-message:wbit")
		}
	case 2:
		m0 := NewDataMessage("n", 1, 1, 0, "H->E", item)
		var m *DataMessage
		p := rt.Try(func() { m = m0.SetSessionIDAndSystemBytes(sid, rt.Bytes("sys", 4)) })
		rt.Assert(p == !rt.And(sid >= -1, sid <= 65535), "set-session:accepted-iff-in-range")
		if !p {
			rt.Assert(m.SessionID() == sid, "set-session:stored")
		}
	case 4:
		// a fill of a message's variable stores the value and keeps every header field that was
		// set before it (nothing falls back to a default), in either order of the two steps
		v, sys := rt.Int16("v"), rt.Bytes("sys", 4)
		rt.Assume(rt.And(rt.And(base, rt.And(wb >= 0, wb <= 1)), rt.And(!rt.And(wb == 1, fn%2 == 0), rt.And(sid >= 0, sid <= 65535))))
		t := NewDataMessage("n", st, fn, wb, dirs[di], NewListNode(NewIntNode(2, "x"), NewASCIINodeVariable("s", 0, 3)))
		vals := map[string]interface{}{"x": v, "s": "ab"}
		var m *DataMessage
		if rt.Choice("order", 2) == 0 {
			m = t.SetSessionIDAndSystemBytes(sid, sys).FillVariables(vals)
		} else {
			m = t.FillVariables(vals).SetSessionIDAndSystemBytes(sid, sys)
		}
		rt.Assert(m.SessionID() == sid, "message-fill:session-id-kept")
		got := m.SystemBytes()
		rt.Assert(len(got) == 4 && got[0] == sys[0] && got[1] == sys[1] && got[2] == sys[2] && got[3] == sys[3], "message-fill:system-bytes-kept")
		rt.Assert(rt.And(m.StreamCode() == st, m.FunctionCode() == fn), "message-fill:codes-kept")
		b := m.ToBytes()
		rt.Assert(len(b) == 14+2+4+4, "message-fill:encodes")
		if len(b) == 24 {
			rt.Assert(int(b[4])<<8|int(b[5]) == sid, "message-fill:session-id-bytes")
			rt.Assert(b[18] == byte(uint16(v)>>8) && b[19] == byte(v), "message-fill:value-bytes")
		}
	case 3:
		// message name: k arbitrary 7-bit bytes; whitespace (TAB LF VT FF CR SP) is refused
		k := rt.Param("k")
		name := rt.String("name", k)
		ws := false
		for i := 0; i < k; i++ {
			c := name[i]
			rt.Assume(c < 0x80)
			ws = rt.Or(ws, rt.Or(rt.And(c >= 9, c <= 13), c == 32))
		}
		var m *DataMessage
		p := rt.Try(func() { m = NewDataMessage(name, 1, 1, 0, "H->E", item) })
		rt.Assert(p == ws, "message-name:refused-iff-whitespace")
		if !p {
			rt.Assert(rt.StrEq(m.Name(), name), "message-name:stored")
		}
	}
	rt.Reach("end")
}

// ZZ_C12_varname_idx: names with an index accessor followed by k arbitrary bytes:
// "a[" digit "]" + suffix is a name only if the suffix is empty or further "[digits]".
func ZZ_C12_varname_idx() {
	k, kind := rt.Param("k"), rt.Param("kind")
	d := rt.Byte("d")
	rt.Assume(rt.And(d >= '0', d <= '9'))
	name := "a[" + string([]byte{d}) + "]" + rt.String("s", k)
	want := zzNameOK(name)
	var p bool
	switch kind {
	case 0:
		p = rt.Try(func() { NewIntNode(2, name) })
	case 1:
		p = rt.Try(func() { NewListNode(NewIntNode(1, 1), name) })
	case 2:
		p = rt.Try(func() { NewASCIINodeVariable(name, 0, -1) })
	case 3:
		p = rt.Try(func() { NewIntNode(1, "q").FillVariables(map[string]interface{}{"q": name}) })
	}
	rt.Assert(p == !want, "varname:index-suffix-grammar")
	rt.Reach("end")
}

// ZZ_C12_fill: the same range rules through FillVariables: filling a variable of a leaf of
// the given kind with every value of Go type gt is accepted iff the value is in range.
func ZZ_C12_fill() {
	kind, w, gt := rt.Param("kind"), rt.Param("w"), rt.Param("gt")
	v, sx, ux, signed := zzIntArg(gt, "v")
	var tmpl ItemNode
	var inRange bool
	switch kind {
	case 0:
		tmpl = NewIntNode(w, "x", 1)
		max := int64(1)<<(8*uint(w)-1) - 1
		if signed {
			inRange = rt.And(-max-1 <= sx, sx <= max)
		} else {
			inRange = ux <= uint64(max)
		}
	case 1:
		tmpl = NewUintNode(w, 1, "x")
		if signed {
			inRange = rt.And(sx >= 0, uint64(sx) <= zzMaskW(w))
		} else {
			inRange = ux <= zzMaskW(w)
		}
	case 2:
		tmpl = NewBinaryNode("x")
		inRange = gt == 0 && sx >= 0 && sx <= 255
		if gt == 0 {
			inRange = rt.And(sx >= 0, sx <= 255)
		}
	}
	var got ItemNode
	p := rt.Try(func() { got = tmpl.FillVariables(map[string]interface{}{"x": v}) })
	rt.Assert(p == !inRange, "fill:accepted-iff-in-range")
	if !p {
		b := got.ToBytes()
		switch kind {
		case 0:
			rt.Assert(zzBE(b[2:], w) == ux&zzMaskW(w), "fill:encoded-value")
		case 1:
			rt.Assert(zzBE(b[2+w:], w) == ux, "fill:encoded-value")
		case 2:
			rt.Assert(uint64(b[2]) == ux, "fill:encoded-value")
		}
	}
	rt.Reach("end")
}
