//go:build verif

package ast

import rt "github.com/wolimst/lib-secs2-hsms-go/pkg/zzverifrt"

// format table typed in from SEMI E5 (item format codes, octal) and element widths
var zzTypeNames = []string{"list", "binary", "boolean", "ascii", "i8", "i1", "i2", "i4", "f8", "f4", "u8", "u1", "u2", "u4"}
var zzTypeCodes = []int{0o00, 0o10, 0o11, 0o20, 0o30, 0o31, 0o32, 0o34, 0o40, 0o44, 0o50, 0o51, 0o52, 0o54}
var zzTypeWidth = []int{1, 1, 1, 1, 8, 1, 2, 4, 8, 4, 8, 1, 2, 4}

// zzPanics runs f and reports whether it panicked.
func zzPanics(f func()) bool { return rt.Try(f) }

// zzHeaderOK states the E5 item header for a payload of n bytes (n <= 16777215).
func zzHeaderOK(b []byte, code int, n int) bool {
	if len(b) < 2 {
		return false
	}
	nlb := int(b[0] & 3)
	if int(b[0]>>2) != code {
		return false
	}
	switch {
	case n <= 255:
		return nlb == 1 && len(b) >= 2 && int(b[1]) == n
	case n <= 65535:
		return nlb == 2 && len(b) >= 3 && int(b[1])<<8|int(b[2]) == n
	default:
		return nlb == 3 && len(b) >= 4 && int(b[1])<<16|int(b[2])<<8|int(b[3]) == n
	}
}
