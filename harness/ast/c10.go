//go:build verif

package ast

import rt "github.com/wolimst/lib-secs2-hsms-go/pkg/zzverifrt"

// zzT is the harness's own description of a list template.
// kind: 0 constant <U1 7>, 1 <I1 name>, 2 <A[1..3] name>, 3 list-valued variable name,
// 4 list (kids), 5 ellipsis (name)
type zzT struct {
	kind int
	name string
	kids []*zzT
}

type zzTG struct {
	nvar, nell int
	ells       []string
	kinds      int // leaf menu size: constant, <I1 v>, <A v>, list variable
	ibefore    int // bounds of nested lists
	iafter     int
}

func (g *zzTG) v() string {
	n := rt.N("v", g.nvar)
	g.nvar++
	return n
}

// list draws a list template: 1..before items, optionally an ellipsis, then 0..after items.
func (g *zzTG) list(pfx string, depth, before, after int) *zzT {
	l := &zzT{kind: 4}
	nb := 1 + rt.Choice(pfx+"nb", before)
	for i := 0; i < nb; i++ {
		l.kids = append(l.kids, g.item(rt.N(pfx+"b", i), depth, before, after))
	}
	if rt.Choice(pfx+"ell", 2) == 1 {
		name := "...[" + rt.N("", g.nell)[1:] + "]"
		g.nell++
		g.ells = append(g.ells, name)
		l.kids = append(l.kids, &zzT{kind: 5, name: name})
		na := rt.Choice(pfx+"na", after+1)
		for i := 0; i < na; i++ {
			l.kids = append(l.kids, g.item(rt.N(pfx+"a", i), depth, before, after))
		}
	}
	return l
}

func (g *zzTG) item(pfx string, depth, before, after int) *zzT {
	nk := g.kinds
	if depth > 0 {
		nk = g.kinds + 1
	}
	k := rt.Choice(pfx+"k", nk)
	if k == g.kinds {
		return g.list(pfx+"L", depth-1, g.ibefore, g.iafter)
	}
	switch k {
	case 0:
		return &zzT{kind: 0}
	}
	return &zzT{kind: k, name: g.v()}
}

// zzBuild turns a description into a real item.
func zzBuild(t *zzT) interface{} {
	switch t.kind {
	case 0:
		return NewUintNode(1, 7)
	case 1:
		return NewIntNode(1, t.name)
	case 2:
		return NewASCIINodeVariable(t.name, 1, 3)
	case 3, 5:
		return t.name
	}
	kids := make([]interface{}, len(t.kids))
	for i, k := range t.kids {
		kids[i] = zzBuild(k)
	}
	return NewListNode(kids...)
}

// zzExpand is the reference expander written from the documentation.
func zzExpand(t *zzT, fills map[string]int, suffix string) *zzT {
	if t.kind != 4 {
		c := *t
		if t.kind >= 1 && t.kind <= 3 {
			c.name = t.name + suffix
		}
		return &c
	}
	out := &zzT{kind: 4}
	p, n, filled := -1, 0, false
	for i, k := range t.kids {
		if k.kind == 5 {
			p = i
			n, filled = fills[k.name], false
			if _, ok := fills[k.name]; ok {
				filled = true
			}
		}
	}
	if !filled {
		for _, k := range t.kids {
			out.kids = append(out.kids, zzExpand(k, fills, suffix))
		}
		return out
	}
	if n == 0 {
		for i, k := range t.kids {
			if i != p {
				out.kids = append(out.kids, zzExpand(k, fills, suffix))
			}
		}
		return out
	}
	for j := 0; j <= n; j++ {
		sj := suffix + "[" + rt.N("", j)[1:] + "]"
		for i := 0; i < p; i++ {
			out.kids = append(out.kids, zzExpand(t.kids[i], fills, sj))
		}
	}
	for i := p + 1; i < len(t.kids); i++ {
		out.kids = append(out.kids, zzExpand(t.kids[i], fills, suffix))
	}
	return out
}

// zzRenumber renames the remaining ellipses in order of appearance.
func zzRenumber(t *zzT, total int, next *int) {
	for _, k := range t.kids {
		if k.kind == 5 {
			if total == 1 {
				k.name = "..."
			} else {
				k.name = "...[" + rt.N("", *next)[1:] + "]"
			}
			*next++
		} else if k.kind == 4 {
			zzRenumber(k, total, next)
		}
	}
}

func zzCountEll(t *zzT) int {
	n := 0
	for _, k := range t.kids {
		if k.kind == 5 {
			n++
		} else if k.kind == 4 {
			n += zzCountEll(k)
		}
	}
	return n
}

func zzVarsOf(t *zzT, out *[]*zzT) {
	for _, k := range t.kids {
		if k.kind == 4 {
			zzVarsOf(k, out)
		} else if k.kind != 0 {
			*out = append(*out, k)
		}
	}
}

// ZZ_C10_expand: every list template within the bound x every assignment of repeat counts
// (each ellipsis unfilled, or filled with 0..R), compared with the reference expansion.
func ZZ_C10_expand() {
	depth, before, after, R := rt.Param("depth"), rt.Param("before"), rt.Param("after"), rt.Param("R")
	g := &zzTG{kinds: rt.Param("kinds"), ibefore: rt.Param("ibefore"), iafter: rt.Param("iafter")}
	tmplDesc := g.list("t", depth, before, after)
	var tmpl ItemNode
	if rt.Try(func() { tmpl = zzBuild(tmplDesc).(ItemNode) }) {
		rt.Assert(false, "template:constructible")
	}
	fills := map[string]int{}
	values := map[string]interface{}{}
	for i, e := range g.ells {
		c := rt.Choice(rt.N("fill", i), R+2)
		if c > 0 {
			fills[e] = c - 1
			values[e] = c - 1
		}
	}
	zzCheckExpand(tmplDesc, tmpl, fills, values)
	rt.Reach("end")
}

// zzCheckExpand compares tmpl.FillVariables(values) with the reference expansion of the description.
func zzCheckExpand(tmplDesc *zzT, tmpl ItemNode, fills map[string]int, values map[string]interface{}) {
	var got ItemNode
	if rt.Try(func() { got = tmpl.FillVariables(values) }) {
		rt.Assert(false, "expand:accepted")
	}
	want := tmplDesc
	if len(fills) > 0 {
		want = zzExpand(tmplDesc, fills, "")
		next := 0
		zzRenumber(want, zzCountEll(want), &next)
	}
	var wantNode ItemNode
	if rt.Try(func() { wantNode = zzBuild(want).(ItemNode) }) {
		rt.Assert(false, "reference:constructible")
	}
	gv, wv := got.Variables(), wantNode.Variables()
	rt.Assert(len(gv) == len(wv), "expand:variable-count")
	nEll := 0
	for i := range wv {
		if i < len(gv) {
			if isEllipsis(wv[i]) {
				nEll++
				// "..." and "...[0]" spell the same single remaining ellipsis
				same := gv[i] == wv[i] || (wv[i] == "..." && gv[i] == "...[0]")
				rt.Assert(same, "expand:ellipsis-renumbered")
			} else {
				rt.Assert(gv[i] == wv[i], "expand:variable-names")
			}
		}
	}
	gs, _ := got.(interface{ String() string })
	ws, _ := wantNode.(interface{ String() string })
	rt.Assert(gs.String() == ws.String(), "expand:printed-form")
	rt.Assert(got.Size() == wantNode.Size(), "expand:size")
	seen := map[string]bool{}
	for _, v := range gv {
		rt.Assert(!seen[v], "expand:names-unique")
		seen[v] = true
	}
	// each generated name can be filled individually and removes exactly that name
	var vars []*zzT
	zzVarsOf(want, &vars)
	for vi, v := range vars {
		if v.kind == 5 || (len(vars) > 16 && vi >= 6 && vi < len(vars)-6) {
			continue // big expansions: the first and last six generated names
		}
		var val interface{}
		switch v.kind {
		case 1:
			val = int8(5)
		case 2:
			val = "ab"
		case 3:
			val = NewBooleanNode(true)
		}
		var after ItemNode
		if rt.Try(func() { after = got.FillVariables(map[string]interface{}{v.name: val}) }) {
			rt.Assert(false, "expand:generated-name-fillable")
		}
		av := after.Variables()
		rt.Assert(len(av) == len(gv)-1, "expand:fill-removes-one-name")
		for _, x := range av {
			rt.Assert(x != v.name, "expand:fill-removes-that-name")
		}
	}
}

// ZZ_C10_shapes: fixed template shapes with repeat counts and nesting beyond what the
// generated templates reach: 0 <L x ... y> and 1 <L <L a ...[0] b> ...[1] c> with counts up
// to `n` (two-digit copy indices), 2 a chain of `depth` nested lists <L v <L ..> ...[i] w>
// whose ellipses are each left unfilled or filled with 0 or 1 (all expanded at once).
func ZZ_C10_shapes() {
	shape, n, depth := rt.Param("shape"), rt.Param("n"), rt.Param("depth")
	ell := func(i int) *zzT { return &zzT{kind: 5, name: "...[" + rt.N("", i)[1:] + "]"} }
	leaf := func(kind int, name string) *zzT { return &zzT{kind: kind, name: name} }
	var desc *zzT
	fills := map[string]int{}
	values := map[string]interface{}{}
	set := func(i, c int) {
		fills[ell(i).name] = c
		values[ell(i).name] = c
	}
	switch shape {
	case 0:
		desc = &zzT{kind: 4, kids: []*zzT{leaf(1, "x"), {kind: 5, name: "..."}, leaf(2, "y")}}
		c := rt.IntRange("n0", 0, n)
		c = rt.Concretize(c)
		fills["..."], values["..."] = c, c
	case 1:
		inner := &zzT{kind: 4, kids: []*zzT{leaf(1, "a"), ell(0), leaf(3, "b")}}
		desc = &zzT{kind: 4, kids: []*zzT{inner, ell(1), leaf(2, "c")}}
		set(0, rt.Concretize(rt.IntRange("n0", 0, n)))
		set(1, rt.Concretize(rt.IntRange("n1", 0, 2)))
	case 2:
		var cur *zzT
		for i := depth - 1; i >= 0; i-- {
			l := &zzT{kind: 4, kids: []*zzT{leaf(1, rt.N("v", i))}}
			if cur != nil {
				l.kids = append(l.kids, cur)
			}
			l.kids = append(l.kids, ell(i), leaf(2, rt.N("w", i)))
			cur = l
		}
		desc = cur
		for i := 0; i < depth; i++ {
			if c := rt.Choice(rt.N("fill", i), 3); c > 0 {
				set(i, c-1)
			}
		}
		if depth == 1 {
			desc.kids[1].name = "..."
			if c, ok := fills["...[0]"]; ok {
				fills, values = map[string]int{"...": c}, map[string]interface{}{"...": c}
			}
		}
	}
	var tmpl ItemNode
	if rt.Try(func() { tmpl = zzBuild(desc).(ItemNode) }) {
		rt.Assert(false, "template:constructible")
	}
	zzCheckExpand(desc, tmpl, fills, values)
	rt.Reach("end")
}
