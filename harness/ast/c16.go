//go:build verif

package ast

import rt "github.com/wolimst/lib-secs2-hsms-go/pkg/zzverifrt"

// zzGen draws item trees with variables in arbitrary positions and records, in the
// order of construction (= left to right, depth first), the names it used.
type zzGen struct {
	kinds int // size of the leaf menu: I1, ASCII variable, B, BOOLEAN, U2, F4, ASCII constant
	next  int
	ell   int
	vars  []string
}

func (g *zzGen) name() string {
	n := rt.N("v", g.next)
	g.next++
	g.vars = append(g.vars, n)
	return n
}

// leaf: kind by choice (I1, U2, F4, B, BOOLEAN with n<=maxN slots, each slot a variable or
// a constant; or an ASCII constant / ASCII variable). Returns the node and its Size().
func (g *zzGen) leaf(pfx string, maxN int) (ItemNode, int) {
	kind := []int{0, 6, 3, 4, 1, 2, 5}[rt.Choice(pfx+"kind", g.kinds)]
	if kind == 5 {
		return NewASCIINode("t x"), 3
	}
	if kind == 6 {
		return NewASCIINodeVariable(g.name(), 1, 4), -1
	}
	n := rt.Choice(pfx+"n", maxN+1)
	slots := make([]interface{}, n)
	for i := range slots {
		if rt.Choice(rt.N(pfx+"var", i), 2) == 1 {
			slots[i] = g.name()
			continue
		}
		switch kind {
		case 0:
			slots[i] = int8(-3)
		case 1:
			slots[i] = uint16(513)
		case 2:
			slots[i] = float32(1.5)
		case 3:
			slots[i] = 5
		case 4:
			slots[i] = true
		}
	}
	switch kind {
	case 0:
		return NewIntNode(1, slots...), n
	case 1:
		return NewUintNode(2, slots...), n
	case 2:
		return NewFloatNode(4, slots...), n
	case 3:
		return NewBinaryNode(slots...), n
	}
	return NewBooleanNode(slots...), n
}

// tree: a list of up to `width` children, each a leaf, a list-valued variable or (while
// depth allows) a nested list; optionally an ellipsis at any position after the first.
func (g *zzGen) tree(pfx string, depth, width, maxN int) (ItemNode, int) {
	cnt := rt.Choice(pfx+"w", width+1)
	kids := []interface{}{}
	ellAt := -1
	if cnt >= 1 && rt.Choice(pfx+"ell", 2) == 1 {
		ellAt = 1 + rt.Choice(pfx+"ellpos", cnt)
	}
	for i := 0; i < cnt; i++ {
		if i == ellAt {
			kids = append(kids, g.ellipsis())
		}
		nk := 2
		if depth > 0 {
			nk = 3
		}
		switch rt.Choice(rt.N(pfx+"c", i), nk) {
		case 0:
			l, _ := g.leaf(rt.N(pfx+"l", i), maxN)
			kids = append(kids, l)
		case 1:
			kids = append(kids, g.name())
		case 2:
			t, _ := g.tree(rt.N(pfx+"t", i), depth-1, width, maxN)
			kids = append(kids, t)
		}
	}
	if ellAt == cnt {
		kids = append(kids, g.ellipsis())
	}
	return NewListNode(kids...), len(kids)
}

func (g *zzGen) ellipsis() string {
	n := rt.N("...[", g.ell) + "]"
	n = "...[" + n[len("...[_"):]
	g.ell++
	g.vars = append(g.vars, n)
	return n
}

// zzPrintedNames extracts, left to right, the variable names from a printed item:
// tokens inside <...> after the type and optional size that start with a letter or '_'
// (T and F are boolean literals), and "..." for ellipses.  Quoted strings are skipped.
func zzPrintedNames(s string) []string {
	var out []string
	i := 0
	isAlpha := func(c byte) bool { return c >= 'A' && c <= 'Z' || c >= 'a' && c <= 'z' || c == '_' }
	isWord := func(c byte) bool { return isAlpha(c) || c >= '0' && c <= '9' || c == '[' || c == ']' }
	for i < len(s) {
		c := s[i]
		switch {
		case c == '"':
			i++
			for i < len(s) && s[i] != '"' {
				i++
			}
			i++
		case c == '<':
			i++
			for i < len(s) && (isAlpha(s[i]) || s[i] >= '0' && s[i] <= '9') {
				i++ // type name
			}
			if i < len(s) && s[i] == '[' {
				for i < len(s) && s[i] != ']' {
					i++
				}
				i++
			}
		case c == '.' && i+2 < len(s) && s[i+1] == '.' && s[i+2] == '.':
			out = append(out, "...")
			i += 3
		case isAlpha(c):
			j := i
			for j < len(s) && isWord(s[j]) {
				j++
			}
			tok := s[i:j]
			if tok != "T" && tok != "F" {
				out = append(out, tok)
			}
			i = j
		case c >= '0' && c <= '9' || c == '-' || c == '+':
			for i < len(s) && s[i] != ' ' && s[i] != '>' && s[i] != '\n' {
				i++ // number literal (may contain letters: 0b101, 1e+10)
			}
		default:
			i++
		}
	}
	return out
}

func zzCheckListing(item ItemNode, want []string, size int, tag string) {
	got := item.Variables()
	rt.Assert(len(got) == len(want), tag+":variables-count")
	for i := range want {
		if i < len(got) {
			rt.Assert(got[i] == want[i], tag+":variables-in-construction-order")
		}
	}
	str, _ := item.(interface{ String() string })
	printed := zzPrintedNames(str.String())
	rt.Assert(len(printed) == len(got), tag+":printed-names-count")
	for i := range got {
		if i < len(printed) {
			if isEllipsis(got[i]) {
				rt.Assert(printed[i] == "...", tag+":printed-order-ellipsis")
			} else {
				rt.Assert(printed[i] == got[i], tag+":printed-order")
			}
		}
	}
	seen := map[string]bool{}
	for _, v := range got {
		rt.Assert(!seen[v], tag+":no-duplicate")
		seen[v] = true
	}
	rt.Assert((len(item.ToBytes()) > 0) == (len(got) == 0), tag+":encodable-iff-no-variables")
	rt.Assert(item.Size() == size, tag+":size")
}

// ZZ_C16_leaf / ZZ_C16_tree: all shapes within the bound, each under map iteration order
// `order` (0 insertion, 1 reversed, 2 rotated).
func ZZ_C16_leaf() {
	rt.MapOrder(rt.Param("order"))
	g := &zzGen{kinds: 7}
	item, size := g.leaf("l", rt.Param("maxn"))
	zzCheckListing(item, g.vars, size, "leaf")
	rt.Reach("end")
}

// ZZ_C16_manyvars: one scalar item holding n variables (n beyond 65,536: an index packed into
// 16 bits no longer fits): listed once each, in order, and accepted as a list element.
func ZZ_C16_manyvars() {
	n, kind := rt.Param("n"), rt.Param("kind")
	names := make([]string, n)
	vals := make([]interface{}, n)
	for i := range names {
		names[i] = "v" + rt.N("", i)[1:]
		vals[i] = names[i]
	}
	c := rt.Byte("c")
	vals[n/2] = uint8(c & 1)
	var item ItemNode
	switch kind {
	case 0:
		item = NewUintNode(1, vals...)
	case 1:
		vals[n/2] = c&1 == 1
		item = NewBooleanNode(vals...)
	case 2:
		vals[n/2] = int(c)
		item = NewBinaryNode(vals...)
	}
	vs := item.Variables()
	rt.Assert(len(vs) == n-1, "manyvars:count")
	bad := 0
	for i, j := 0, 0; i < n && j < len(vs); i++ {
		if i == n/2 {
			continue
		}
		if vs[j] != names[i] {
			bad++
		}
		j++
	}
	rt.Assert(bad == 0, "manyvars:listed-in-order-once-each")
	rt.Assert(item.Size() == n, "manyvars:size")
	rt.Assert(len(item.ToBytes()) == 0, "manyvars:not-encodable")
	p := rt.Try(func() { item = NewListNode(item, "tail") })
	rt.Assert(!p, "manyvars:accepted-as-list-element")
	if !p {
		lv := item.Variables()
		rt.Assert(len(lv) == n && lv[n-1] == "tail" && lv[0] == names[0], "manyvars:list-lists-them")
	}
	rt.Reach("end")
}

func ZZ_C16_tree() {
	rt.MapOrder(rt.Param("order"))
	g := &zzGen{kinds: rt.Param("kinds")}
	item, size := g.tree("t", rt.Param("depth"), rt.Param("width"), rt.Param("maxn"))
	zzCheckListing(item, g.vars, size, "tree")
	m := NewDataMessage("m", 1, 1, 0, "H->E", item).SetSessionIDAndSystemBytes(1, []byte{1, 2, 3, 4})
	mv := m.Variables()
	rt.Assert(len(mv) == len(g.vars), "message:variables-count")
	rt.Assert((len(m.ToBytes()) > 0) == (len(mv) == 0), "message:encodable-iff-no-variables")
	rt.Reach("end")
}

// ZZ_C16_shared: an item shared by several parents (first, middle or last child), and the
// listing of every parent built before and after the others.
func ZZ_C16_shared() {
	rt.MapOrder(rt.Param("order"))
	sub := NewListNode(NewIntNode(1, "s1"), NewBinaryNode("s2"), NewBooleanNode("s3"))
	leaf := NewUintNode(2, "u1", uint16(5), "u2")
	p1 := NewListNode(sub, "a1")
	zzCheckListing(p1, []string{"s1", "s2", "s3", "a1"}, 2, "shared:first-parent")
	p2 := NewListNode(sub, "b1", leaf)
	p3 := NewListNode(leaf, sub)
	p4 := NewListNode(NewListNode(sub), "c1")
	zzCheckListing(p2, []string{"s1", "s2", "s3", "b1", "u1", "u2"}, 3, "shared:second-parent")
	zzCheckListing(p3, []string{"u1", "u2", "s1", "s2", "s3"}, 2, "shared:third-parent")
	zzCheckListing(p4, []string{"s1", "s2", "s3", "c1"}, 2, "shared:nested-parent")
	zzCheckListing(p1, []string{"s1", "s2", "s3", "a1"}, 2, "shared:first-parent-again")
	zzCheckListing(sub, []string{"s1", "s2", "s3"}, 3, "shared:child")
	f := p2.FillVariables(map[string]interface{}{"s2": 1, "u1": uint16(9)})
	zzCheckListing(f, []string{"s1", "s3", "b1", "u2"}, 3, "shared:filled")
	zzCheckListing(p2, []string{"s1", "s2", "s3", "b1", "u1", "u2"}, 3, "shared:second-parent-after-fill")
	zzCheckListing(p3, []string{"u1", "u2", "s1", "s2", "s3"}, 2, "shared:third-parent-after-fill")
	// a caller reordering the slice it was given does not change what the tree lists
	vs := p2.Variables()
	vs[0], vs[len(vs)-1] = vs[len(vs)-1], vs[0]
	zzCheckListing(p2, []string{"s1", "s2", "s3", "b1", "u1", "u2"}, 3, "shared:listing-after-caller-reordered-its-copy")
	zzCheckListing(NewListNode(p2, "z9"), []string{"s1", "s2", "s3", "b1", "u1", "u2", "z9"}, 2, "shared:new-parent-after-caller-reordered-its-copy")
	rt.Reach("end")
}

// ZZ_C16_ascii: an ASCII item of k arbitrary bytes, when constructible, reports a size equal
// to the number of characters it encodes and prints.
func ZZ_C16_ascii() {
	k := rt.Param("k")
	s := rt.String("s", k)
	var n ItemNode
	if rt.Try(func() { n = NewASCIINode(s) }) {
		rt.Reach("end")
		return
	}
	b := n.ToBytes()
	rt.Assert(len(b) == 2+n.Size(), "ascii:size-equals-encoded-characters")
	rt.Assert(n.Size() == k, "ascii:size-equals-characters-given")
	rt.Assert(len(n.Variables()) == 0, "ascii:no-variables")
	rt.Reach("end")
}

// ZZ_C16_dupfill: a fill-in value that brings a name already present elsewhere in the tree
// (at any depth) must be refused: no name may occur twice anywhere in a tree.
func ZZ_C16_dupfill() {
	which := rt.Param("which")
	tmpl := NewListNode(NewUintNode(1, "x"), "payload", NewListNode(NewIntNode(2, "y"), "inner"))
	var val ItemNode
	key := "payload"
	switch which {
	case 0:
		val = NewUintNode(2, "x")
	case 1:
		val = NewListNode(NewBooleanNode("y"))
	case 2:
		val, key = NewASCIINodeVariable("x", 0, -1), "inner"
	case 3:
		val, key = NewListNode("payload"), "inner"
	case 4:
		val = NewBinaryNode("fresh") // a new name is fine
	}
	var got ItemNode
	p := rt.Try(func() { got = tmpl.FillVariables(map[string]interface{}{key: val}) })
	if which == 4 {
		rt.Assert(!p, "dupfill:fresh-name-accepted")
		zzCheckListing(got, []string{"x", "fresh", "y", "inner"}, 3, "dupfill:fresh")
	} else {
		rt.Assert(p, "dupfill:duplicate-name-refused")
	}
	rt.Reach("end")
}

// ZZ_C16_message: "encodes iff the variable list is empty" at message level, for a message
// whose data item is a bare item of every kind (variable or value), an empty item, and lists
// around them: with the wait bit decided and the session id set, ToBytes() is empty exactly
// when Variables() is not.
func ZZ_C16_message() {
	kind, wrap := rt.Param("kind"), rt.Param("wrap")
	bare := []func(v bool) ItemNode{
		func(v bool) ItemNode {
			if v {
				return NewASCIINodeVariable("text", 0, -1)
			}
			return NewASCIINode("ab")
		},
		func(v bool) ItemNode {
			if v {
				return NewASCIINodeVariable("text", 2, 2)
			}
			return NewASCIINode("")
		},
		func(v bool) ItemNode { return NewBinaryNode(zzVarOr(v, "p", 1)) },
		func(v bool) ItemNode { return NewBooleanNode(zzVarOr(v, "p", true)) },
		func(v bool) ItemNode { return NewIntNode(4, zzVarOr(v, "p", -2)) },
		func(v bool) ItemNode { return NewUintNode(8, zzVarOr(v, "p", 2)) },
		func(v bool) ItemNode { return NewFloatNode(4, zzVarOr(v, "p", 1.5)) },
		func(v bool) ItemNode { return NewFloatNode(8, 2.5, zzVarOr(v, "p", 1.5)) },
		func(v bool) ItemNode {
			if v {
				return NewListNode(NewIntNode(1, 1), "...")
			}
			return NewListNode()
		},
		func(v bool) ItemNode {
			if v {
				return NewListNode("lv")
			}
			return NewEmptyItemNode()
		},
	}[kind]
	for _, hasVar := range []bool{true, false} {
		item := bare(hasVar)
		if kind == 9 && !hasVar && wrap > 0 {
			// "no item" cannot be a list element: it would print as nothing, have no variable and yet not encode
			rt.Assert(rt.Try(func() { NewListNode(NewUintNode(1, 1), item) }), "list:empty-item-refused-as-element")
			rt.Assert(rt.Try(func() { NewListNode("lv").FillVariables(map[string]interface{}{"lv": item}) }), "list:empty-item-refused-as-fill-value")
			continue
		}
		for i := 0; i < wrap; i++ {
			item = NewListNode(NewUintNode(1, 1), item)
		}
		m := NewDataMessage("n", 1, 1, 0, "H->E", item).SetSessionIDAndSystemBytes(int(rt.Uint16("sid")), rt.Bytes("sys", 4))
		vars := m.Variables()
		rt.Assert((len(vars) > 0) == hasVar, "message:variables-listed")
		b := m.ToBytes()
		rt.Assert((len(b) == 0) == hasVar, "message:encodes-iff-no-variables")
		if !hasVar {
			rt.Assert(len(b) == 14+len(item.ToBytes()), "message:header-plus-item")
		}
	}
	rt.Reach("end")
}

func zzVarOr(v bool, name string, val interface{}) interface{} {
	if v {
		return name
	}
	return val
}

// ZZ_C16_dupnames2: further ways in which a name could come to stand twice in a tree; each
// must be refused, and the same fills with a fresh name must be accepted.
func ZZ_C16_dupnames2() {
	which := rt.Param("which")
	fresh := rt.Param("fresh") == 1 // control: the colliding name replaced by an unused one
	nm := func(s string) string {
		if fresh {
			return "n" + s
		}
		return s
	}
	var p bool
	switch which {
	case 0: // a value inserted into a nested list brings a name used in another branch of the outer list
		t := NewListNode(NewUintNode(1, "y"), NewListNode("v"), NewASCIINode("k"))
		p = rt.Try(func() { t.FillVariables(map[string]interface{}{"v": NewUintNode(1, nm("y"))}) })
	case 1: // the same through a message
		m := NewDataMessage("", 1, 1, 0, "H->E", NewListNode(NewUintNode(1, "y"), NewListNode(NewListNode("v"))))
		p = rt.Try(func() { m.FillVariables(map[string]interface{}{"v": NewBooleanNode(nm("y"))}) })
	case 2: // a name generated by an ellipsis expansion exists already (only ellipsis keys in the map)
		t := NewListNode(NewListNode(NewUintNode(1, "a"), "..."), NewUintNode(1, nm("a[1]")))
		p = rt.Try(func() { t.FillVariables(map[string]interface{}{"...": 1}) })
	case 3: // ... and with a further key in the map
		t := NewListNode(NewListNode(NewUintNode(1, "a"), "..."), NewUintNode(1, nm("a[0]")), "z")
		p = rt.Try(func() { t.FillVariables(map[string]interface{}{"...": 2, "z": NewListNode()}) })
	case 4: // an unfilled ASCII variable (size -1) next to one other named element
		p = rt.Try(func() { NewListNode(NewASCIINodeVariable("a", 0, -1), NewUintNode(1, nm("a"))) })
	case 5:
		p = rt.Try(func() { NewListNode(NewASCIINodeVariable("a", 1, 2), NewASCIINodeVariable(nm("a"), 0, -1)) })
	case 6:
		p = rt.Try(func() {
			NewListNode(NewASCIINodeVariable("id", 0, -1), NewListNode(NewListNode(NewBooleanNode(true), NewIntNode(2, 7, nm("id")))))
		})
	case 7, 8, 9, 10, 11, 12: // one fill renames two variables of one node to the same new name
		var n ItemNode
		switch which {
		case 7:
			n = NewBinaryNode("lo", 7, "hi")
		case 8:
			n = NewBooleanNode("lo", true, "hi")
		case 9:
			n = NewIntNode(2, "lo", 7, "hi")
		case 10:
			n = NewUintNode(4, "lo", 7, "hi")
		case 11:
			n = NewFloatNode(8, "lo", 7.5, "hi")
		case 12:
			n = NewListNode("lo", NewBinaryNode(1), "hi")
		}
		second := "part"
		if fresh {
			second = "other"
		}
		p = rt.Try(func() { n.FillVariables(map[string]interface{}{"lo": "part", "hi": second}) })
	case 13: // a rename onto a name the node keeps
		n := NewListNode(NewIntNode(1, "a", "b"), NewBinaryNode("c"))
		target := "b"
		if fresh {
			target = "d"
		}
		p = rt.Try(func() { n.FillVariables(map[string]interface{}{"c": target}) })
	}
	rt.Assert(p == !fresh, "dupnames:refused-iff-the-name-exists")
	rt.Reach("end")
}
