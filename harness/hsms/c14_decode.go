//go:build verif

package hsms

import (
	"github.com/wolimst/lib-secs2-hsms-go/pkg/ast"
	rt "github.com/wolimst/lib-secs2-hsms-go/pkg/zzverifrt"
)

// ZZ_C14_decode: a 14-byte message with an arbitrary 10-byte header: the decoder returns a
// control message equal to the input iff PType is 0 and SType is one of the eight defined
// control types; SType 0 is a data message without text; everything else is rejected.
func ZZ_C14_decode() {
	hdr := rt.Bytes("hdr", 10)
	in := append([]byte{0, 0, 0, 10}, hdr...)
	inCopy := append([]byte{}, in...)
	msg, ok := Parse(in)
	st := hdr[5]
	defined := st == 1 || st == 2 || st == 3 || st == 4 || st == 5 || st == 6 || st == 7 || st == 9
	switch {
	case hdr[4] != 0:
		rt.Assert(!ok, "decode:ptype-nonzero-rejected")
	case defined:
		rt.Assert(ok, "decode:defined-stype-accepted")
		rt.Assert(msg != nil, "decode:message-returned")
		rt.Assert(rt.BytesEq(msg.ToBytes(), inCopy), "decode:equal-bytes")
		names := map[byte]string{1: "select.req", 2: "select.rsp", 3: "deselect.req", 4: "deselect.rsp", 5: "linktest.req", 6: "linktest.rsp", 7: "reject.req", 9: "separate.req"}
		rt.Assert(msg.Type() == names[st], "decode:type")
		_, isControl := msg.(*ast.ControlMessage)
		rt.Assert(isControl, "decode:control-message")
	case st == 0:
		wOnReply := hdr[2]&0x80 != 0 && hdr[3]%2 == 0
		rt.Assert(ok == !wOnReply, "decode:data-message-without-text")
		if ok {
			rt.Assert(msg.Type() == "data message", "decode:data-type")
			rt.Assert(rt.BytesEq(msg.ToBytes(), inCopy), "decode:data-equal-bytes")
		}
	default:
		rt.Assert(!ok, "decode:undefined-stype-rejected")
	}
	rt.Reach("end")
}

// ZZ_C14_roundtrip: every constructor's message decodes to an equal message of the same type.
func ZZ_C14_roundtrip() {
	kind := rt.Param("kind")
	sid := rt.Uint16("sid")
	sys := rt.Bytes("sys", 4)
	var m ast.HSMSMessage
	switch kind {
	case 0:
		m = ast.NewHSMSMessageSelectReq(sid, sys)
	case 1:
		m = ast.NewHSMSMessageSelectRsp(ast.NewHSMSMessageSelectReq(sid, sys), rt.Byte("status"))
	case 2:
		m = ast.NewHSMSMessageDeselectReq(sid, sys)
	case 3:
		m = ast.NewHSMSMessageDeselectRsp(ast.NewHSMSMessageDeselectReq(sid, sys), rt.Byte("status"))
	case 4:
		m = ast.NewHSMSMessageLinktestReq(sys)
	case 5:
		m = ast.NewHSMSMessageLinktestRsp(ast.NewHSMSMessageLinktestReq(sys))
	case 6:
		m = ast.NewHSMSMessageRejectReq(sid, rt.Byte("ptype"), rt.Byte("stype"), sys, rt.Byte("reason"))
	case 7:
		m = ast.NewHSMSMessageSeparateReq(sid, sys)
	}
	b := m.ToBytes()
	buf := append([]byte{}, b...)
	got, ok := Parse(buf)
	rt.Assert(ok, "roundtrip:decodes")
	rt.Assert(rt.BytesEq(got.ToBytes(), b), "roundtrip:equal-bytes")
	rt.Assert(got.Type() == m.Type(), "roundtrip:equal-type")
	// the decoded message stays equal to the message it was decoded from when the read buffer receives the next frame
	for i := range buf {
		buf[i] ^= rt.Byte(rt.N("next", i))
	}
	rt.Assert(rt.BytesEq(got.ToBytes(), b), "roundtrip:equal-bytes-after-buffer-reuse")
	rt.Assert(got.Type() == m.Type(), "roundtrip:equal-type-after-buffer-reuse")
	// a response built from the decoded request equals the one built from the original
	if kind == 0 {
		r1 := ast.NewHSMSMessageSelectRsp(m, 0).ToBytes()
		r2 := ast.NewHSMSMessageSelectRsp(got, 0).ToBytes()
		rt.Assert(rt.BytesEq(r1, r2), "roundtrip:response-from-decoded-request")
	}
	if kind == 4 {
		r2 := ast.NewHSMSMessageLinktestRsp(got).ToBytes()
		rt.Assert(r2[4] == 0xFF && r2[5] == 0xFF, "roundtrip:linktest-rsp-session-ffff")
	}
	rt.Reach("end")
}

// ZZ_C14_foreign: responses to requests that did not come from the constructors (decoded
// from arbitrary bytes): linktest.rsp always carries session id 0xFFFF; select/deselect.rsp
// echo the request's session id and system bytes and leave the request unchanged.
func ZZ_C14_foreign() {
	rsp := rt.Param("rsp")
	hdr := rt.Bytes("hdr", 10)
	hdr[4] = 0
	hdr[5] = []byte{1, 3, 5}[rsp]
	req := ast.NewHSMSControlMessage(hdr)
	reqBefore := append([]byte{}, req.ToBytes()...)
	var m ast.HSMSMessage
	switch rsp {
	case 0:
		m = ast.NewHSMSMessageSelectRsp(req, rt.Byte("status"))
	case 1:
		m = ast.NewHSMSMessageDeselectRsp(req, rt.Byte("status"))
	case 2:
		m = ast.NewHSMSMessageLinktestRsp(req)
	}
	b := m.ToBytes()
	if rsp == 2 {
		rt.Assert(b[4] == 0xFF && b[5] == 0xFF, "foreign:linktest-rsp-session-ffff")
	} else {
		rt.Assert(b[4] == hdr[0] && b[5] == hdr[1], "foreign:echo-session")
	}
	rt.Assert(b[10] == hdr[6] && b[11] == hdr[7] && b[12] == hdr[8] && b[13] == hdr[9], "foreign:echo-system-bytes")
	rt.Assert(b[8] == 0 && b[9] == []byte{2, 4, 6}[rsp], "foreign:ptype-stype")
	rt.Assert(rt.BytesEq(req.ToBytes(), reqBefore), "foreign:request-unchanged")
	rt.Assert(req.Type() == []string{"select.req", "deselect.req", "linktest.req"}[rsp], "foreign:request-type-unchanged")
	// answering the same request again gives the same response
	var m2 ast.HSMSMessage
	p := rt.Try(func() {
		switch rsp {
		case 0:
			m2 = ast.NewHSMSMessageSelectRsp(req, rt.Byte("status"))
		case 1:
			m2 = ast.NewHSMSMessageDeselectRsp(req, rt.Byte("status"))
		case 2:
			m2 = ast.NewHSMSMessageLinktestRsp(req)
		}
	})
	rt.Assert(!p, "foreign:request-answerable-again")
	if !p {
		rt.Assert(rt.BytesEq(m2.ToBytes(), b), "foreign:same-response-again")
	}
	rt.Reach("end")
}
