//go:build verif

package hsms

import (
	"math"
	"strings"

	"github.com/wolimst/lib-secs2-hsms-go/pkg/ast"
	rt "github.com/wolimst/lib-secs2-hsms-go/pkg/zzverifrt"
)

func zzDirection(i int) string { return []string{"H->E", "H<-E", "H<->E"}[i] }

// ZZ_C02_leaf: the bytes of a variable-free leaf item (format param kind, n elements, all
// element values symbolic) and of the complete message around it are exactly E5/E37.
func ZZ_C02_leaf() {
	kind, n := rt.Param("kind"), rt.Param("n")
	item, payload := zzLeaf(kind, n, "v")
	want := zzLeafEnc(kind, n, payload)
	got := item.ToBytes()
	rt.Assert(rt.BytesEq(got, want), "item-bytes")
	rt.Assert(item.Size() == n, "item-size")
	if n > 0 || kind == zzASCII {
		// the same item obtained by filling a template, before and after the template is filled
		// again with other values
		tmpl, fill, zeros := zzLeafTemplate(kind, n, zzLastVals)
		rt.Assert(len(tmpl.ToBytes()) == 0, "template:no-bytes")
		f1 := tmpl.FillVariables(fill)
		rt.Assert(rt.BytesEq(f1.ToBytes(), want), "filled-item-bytes")
		f2 := tmpl.FillVariables(zeros)
		zn := n
		if kind == zzASCII {
			zn = 0
		}
		rt.Assert(rt.BytesEq(f2.ToBytes(), zzLeafEnc(kind, zn, make([]byte, zn*zzWidth[kind]))), "zero-filled-item-bytes")
		rt.Assert(rt.BytesEq(f1.ToBytes(), want), "filled-item-bytes-after-second-fill")
	}
	st, fn, wb, sid, sys := zzHeaderFields()
	m := ast.NewHSMSDataMessage("name", st, fn, wb, zzDirection(rt.Choice("dir", 3)), item, sid, sys)
	rt.Assert(rt.BytesEq(m.ToBytes(), zzFrame(st, fn, wb, sid, sys, want)), "message-bytes")
	rt.Reach("end")
}

// ZZ_C02_tree: lists encode as a header holding the element count followed by the
// children's encodings in order (children drawn from the leaf menu, nested to `depth`).
func ZZ_C02_tree() {
	item, want := zzTree("t", rt.Param("depth"), rt.Param("width"), rt.Param("menu"), rt.Param("maxn"))
	rt.Assert(rt.BytesEq(item.ToBytes(), want), "tree-bytes")
	st, fn, wb, sid, sys := zzHeaderFields()
	m := ast.NewHSMSDataMessage("", st, fn, wb, "H<->E", item, sid, sys)
	rt.Assert(rt.BytesEq(m.ToBytes(), zzFrame(st, fn, wb, sid, sys, want)), "message-bytes")
	rt.Reach("end")
}

// ZZ_C02_empty: a message without text, and incomplete messages, per E37 / documentation:
// header only; optional wait bit, missing session id or an unfilled variable => no bytes at all.
func ZZ_C02_incomplete() {
	st, fn, wb, sid, sys := zzHeaderFields()
	which := rt.Param("which")
	switch which {
	case 0: // complete, empty text
		m := ast.NewHSMSDataMessage("n", st, fn, wb, "H->E", ast.NewEmptyItemNode(), sid, sys)
		rt.Assert(rt.BytesEq(m.ToBytes(), zzFrame(st, fn, wb, sid, sys, nil)), "empty-text-bytes")
	case 1: // no session id
		item, _ := zzLeaf(zzI2, 1, "v")
		m := ast.NewDataMessage("n", st, fn, wb, "H->E", item)
		rt.Assert(len(m.ToBytes()) == 0, "no-session-id-empty")
		m2 := m.SetSessionIDAndSystemBytes(sid, sys)
		rt.Assert(rt.BytesEq(m2.ToBytes(), zzFrame(st, fn, wb, sid, sys, item.ToBytes())), "after-set-session")
	case 2: // optional wait bit
		item, _ := zzLeaf(zzU1, 1, "v")
		m := ast.NewDataMessage("n", st, fn, 2, "H->E", item).SetSessionIDAndSystemBytes(sid, sys)
		rt.Assert(len(m.ToBytes()) == 0, "optional-wbit-empty")
		m2 := m.SetWaitBit(wb == 1)
		rt.Assert(rt.BytesEq(m2.ToBytes(), zzFrame(st, fn, wb, sid, sys, item.ToBytes())), "after-set-wbit")
	case 3: // unfilled variable at depth (in a nested list): every ancestor and the message encode to nothing
		leafKind := zzLeafMenu[rt.Choice("vk", 6)]
		var leaf ast.ItemNode
		w := zzWidth[leafKind]
		switch leafKind {
		case zzBinary:
			leaf = ast.NewBinaryNode(int(rt.Byte("c")), "x")
		case zzBoolean:
			leaf = ast.NewBooleanNode(rt.Bool("cb"), "x")
		case zzASCII:
			leaf = ast.NewASCIINodeVariable("x", 0, -1)
		case zzI2:
			leaf = ast.NewIntNode(w, int16(rt.Int16("c16")), "x")
		case zzF4:
			leaf = ast.NewFloatNode(w, "x", 1.5)
		case zzU8:
			leaf = ast.NewUintNode(w, "x", rt.Uint64("c64"))
		}
		rt.Assert(len(leaf.ToBytes()) == 0, "variable-leaf-empty")
		other, _ := zzLeaf(zzI1, 1, "o")
		inner := ast.NewListNode(other, leaf)
		outer := ast.NewListNode(inner, other)
		rt.Assert(len(inner.ToBytes()) == 0, "variable-list-empty")
		rt.Assert(len(outer.ToBytes()) == 0, "variable-outer-list-empty")
		m := ast.NewDataMessage("n", st, fn, wb, "H->E", outer).SetSessionIDAndSystemBytes(sid, sys)
		rt.Assert(len(m.ToBytes()) == 0, "variable-message-empty")
		lv := ast.NewListNode(other, "lv")
		rt.Assert(len(lv.ToBytes()) == 0, "list-variable-empty")
	case 4: // the session id taken away again ("not specified" = -1) through the producer: nothing to encode;
		// set once more, in either order with the wait bit: the frame of the last values
		item, _ := zzLeaf(zzU2, 1, "v")
		m := ast.NewHSMSDataMessage("n", st, fn, wb, "H->E", item, sid, sys)
		sys2 := rt.Bytes("sys2", 4)
		m1 := m.SetSessionIDAndSystemBytes(-1, sys2)
		rt.Assert(len(m1.ToBytes()) == 0, "session-id-detached-empty")
		rt.Assert(m1.SessionID() == -1, "session-id-detached-accessor")
		sid2 := rt.IntRange("sid2", 0, 65535)
		m2 := m1.SetSessionIDAndSystemBytes(sid2, sys)
		rt.Assert(rt.BytesEq(m2.ToBytes(), zzFrame(st, fn, wb, sid2, sys, item.ToBytes())), "session-id-set-again")
		mo := ast.NewDataMessage("n", st, fn, 2, "H->E", item).SetSessionIDAndSystemBytes(-1, sys2)
		rt.Assert(len(mo.ToBytes()) == 0 && len(mo.SetWaitBit(wb == 1).ToBytes()) == 0, "no-session-id-after-wbit-empty")
		m3 := ast.NewDataMessage("n", st, fn, 2, "H->E", item).SetSessionIDAndSystemBytes(sid2, sys2).SetWaitBit(wb == 1)
		rt.Assert(rt.BytesEq(m3.ToBytes(), zzFrame(st, fn, wb, sid2, sys2, item.ToBytes())), "session-then-wbit")
		m4 := ast.NewDataMessage("n", st, fn, 2, "H->E", item).SetWaitBit(wb == 1).SetSessionIDAndSystemBytes(sid2, sys2)
		rt.Assert(rt.BytesEq(m4.ToBytes(), zzFrame(st, fn, wb, sid2, sys2, item.ToBytes())), "wbit-then-session")
	}
	rt.Reach("end")
}

func zzCheckRoundTrip(item ast.ItemNode, st, fn, wb, sid int, sys []byte, name string) {
	m := ast.NewHSMSDataMessage(name, st, fn, wb, "H<->E", item, sid, sys)
	b := m.ToBytes()
	rt.Assert(len(b) > 0, "encodes")
	ib := item.ToBytes()
	rt.Assert(len(ib) >= 2, "item-encodes")
	rt.Assert(len(b) == 14+len(ib), "message-carries-the-item")
	got, ok := Parse(b)
	rt.Assert(ok, "decode-ok")
	d, isData := got.(*ast.DataMessage)
	rt.Assert(isData, "decode-data-message")
	rt.Assert(d.StreamCode() == st, "stream")
	rt.Assert(d.FunctionCode() == fn, "function")
	rt.Assert(d.WaitBit() == []string{"false", "true"}[wb], "wait-bit")
	rt.Assert(d.SessionID() == sid, "session-id")
	rt.Assert(rt.BytesEq(d.SystemBytes(), sys), "system-bytes")
	rt.Assert(rt.BytesEq(got.ToBytes(), b), "re-encode-identical")
	rt.Assert(len(d.Variables()) == 0, "no-variables")
	// identical item tree: the decoder names the message "" with direction H<->E, as m is
	if name == "" {
		rt.Assert(rt.StrEq(d.String(), m.String()), "item-tree-identical")
	}
	// the same message sent again under a new transaction (derived after it was encoded once)
	sid2, sys2 := int(rt.Uint16("sid2")), rt.Bytes("sys2", 4)
	m2 := m.SetSessionIDAndSystemBytes(sid2, sys2)
	b2 := m2.ToBytes()
	got2, ok2 := Parse(append([]byte{}, b2...))
	rt.Assert(ok2, "resend:decode-ok")
	if d2, isData2 := got2.(*ast.DataMessage); ok2 && isData2 {
		rt.Assert(d2.SessionID() == sid2, "resend:session-id")
		rt.Assert(rt.BytesEq(d2.SystemBytes(), sys2), "resend:system-bytes")
		rt.Assert(rt.BytesEq(d2.ToBytes(), b2), "resend:re-encode-identical")
	}
	rt.Assert(rt.BytesEq(m.ToBytes(), b), "resend:original-unchanged")
}

// ZZ_C01_leaf: encode -> decode -> encode for one leaf format with n symbolic elements.
func ZZ_C01_leaf() {
	kind, n := rt.Param("kind"), rt.Param("n")
	item, _ := zzLeaf(kind, n, "v")
	st, fn, wb, sid, sys := zzHeaderFields()
	zzCheckRoundTrip(item, st, fn, wb, sid, sys, "")
	rt.Reach("end")
}

// ZZ_C01_tree: the same for list trees.
func ZZ_C01_tree() {
	item, _ := zzTree("t", rt.Param("depth"), rt.Param("width"), rt.Param("menu"), rt.Param("maxn"))
	st, fn, wb, sid, sys := zzHeaderFields()
	zzCheckRoundTrip(item, st, fn, wb, sid, sys, "")
	rt.Reach("end")
}

// ZZ_C01_boundary: items whose payload straddles the 1/2/3 length-byte boundaries; the
// payload is concrete filler except three symbolic positions (first, middle, last).
func ZZ_C01_boundary() {
	kind, n := rt.Param("kind"), rt.Param("n")
	w := zzWidth[kind]
	pos := []int{0, n / 2, n - 1}
	vals := make([]interface{}, n)
	var item ast.ItemNode
	switch kind {
	case zzASCII:
		buf := make([]byte, n)
		for i := range buf {
			buf[i] = byte('a' + i%26)
		}
		for j, p := range pos {
			c := rt.Byte(rt.N("c", j))
			rt.Assume(c < 0x80)
			buf[p] = c
		}
		item = ast.NewASCIINode(string(buf))
	case zzBinary:
		for i := range vals {
			vals[i] = i % 251
		}
		for j, p := range pos {
			vals[p] = int(rt.Byte(rt.N("c", j)))
		}
		item = ast.NewBinaryNode(vals...)
	case zzU1, zzU2, zzU4, zzU8:
		for i := range vals {
			vals[i] = uint8(i)
		}
		for j, p := range pos {
			v := rt.Uint64(rt.N("c", j))
			rt.Assume(zzFitsUnsigned(v, w))
			vals[p] = v
		}
		item = ast.NewUintNode(w, vals...)
	case zzI1, zzI2, zzI4, zzI8:
		for i := range vals {
			vals[i] = int8(i)
		}
		for j, p := range pos {
			v := rt.Int64(rt.N("c", j))
			rt.Assume(zzFitsSigned(v, w))
			vals[p] = v
		}
		item = ast.NewIntNode(w, vals...)
	case zzList:
		for i := range vals {
			vals[i] = ast.NewListNode()
		}
		for j, p := range pos {
			vals[p] = ast.NewUintNode(1, rt.Byte(rt.N("c", j)))
		}
		item = ast.NewListNode(vals...)
	}
	st, fn, wb, sid, sys := zzHeaderFields()
	zzCheckRoundTrip(item, st, fn, wb, sid, sys, "")
	rt.Reach("end")
}

// ZZ_C02_boundary: leaf items whose payload straddles the 1/2/3 length-byte boundaries
// (n elements, every element symbolic), compared with the E5 encoding.
func ZZ_C02_boundary() {
	kind, n := rt.Param("kind"), rt.Param("n")
	if kind == zzF4 || kind == zzF8 {
		// floats: concrete filler, three symbolic positions (FP constraints on every element of a
		// 256-byte item are beyond the solver's reach in the time budget)
		w := zzWidth[kind]
		vals := make([]interface{}, n)
		want := zzHeader(zzCodes[kind], n*w)
		sym := map[int]float64{}
		for j, p := range []int{0, n / 2, n - 1} {
			v := rt.Float64(rt.N("f", j))
			if kind == zzF4 {
				rt.Assume(rt.And(v >= -math.MaxFloat32, v <= math.MaxFloat32))
			} else {
				rt.Assume(rt.And(v >= -math.MaxFloat64, v <= math.MaxFloat64))
			}
			sym[p] = v
		}
		for i := range vals {
			v, ok := sym[i]
			if !ok {
				v = float64(i) * 0.5
			}
			vals[i] = v
			var bits uint64
			if kind == zzF4 {
				bits = uint64(math.Float32bits(float32(v)))
			} else {
				bits = math.Float64bits(v)
			}
			for j := w - 1; j >= 0; j-- {
				want = append(want, byte(bits>>(8*uint(j))))
			}
		}
		zzBoundaryCheck(ast.NewFloatNode(w, vals...), want)
		return
	}
	if kind == zzBoolean {
		// the encoder branches on every boolean: three symbolic positions, filler elsewhere
		vals := make([]interface{}, n)
		want := zzHeader(zzCodes[kind], n)
		sym := map[int]bool{0: rt.Bool("b_0"), n / 2: rt.Bool("b_1"), n - 1: rt.Bool("b_2")}
		for i := range vals {
			v, ok := sym[i]
			if !ok {
				v = i%3 == 0
			}
			vals[i] = v
			want = append(want, byte(rt.Ite(v, 1, 0)))
		}
		zzBoundaryCheck(ast.NewBooleanNode(vals...), want)
		return
	}
	item, payload := zzLeaf(kind, n, "v")
	zzBoundaryCheck(item, zzLeafEnc(kind, n, payload))
}

// zzBoundaryCheck: the item alone, and as the first of two elements of a list inside a list
// (a list's encoding is its children's encodings in order, whatever their sizes).
func zzBoundaryCheck(item ast.ItemNode, want []byte) {
	rt.Assert(rt.BytesEq(item.ToBytes(), want), "boundary-item-bytes")
	tail := ast.NewBinaryNode(5)
	l := ast.NewListNode(ast.NewListNode(item, tail), item)
	exp := append([]byte{0x01, 0x02, 0x01, 0x02}, want...)
	exp = append(exp, 0x21, 0x01, 0x05)
	exp = append(exp, want...)
	rt.Assert(rt.BytesEq(l.ToBytes(), exp), "boundary-item-inside-lists")
	rt.Reach("end")
}

// ZZ_C02_chain: d nested single-element lists around a leaf (and a sibling behind every
// third level): the encoding is d list headers, the leaf, the siblings; decodes to the same.
func ZZ_C02_chain() {
	d := rt.Param("d")
	v := rt.Byte("v")
	var item ast.ItemNode = ast.NewBinaryNode(int(v))
	want := []byte{0x21, 0x01, v}
	for i := d - 1; i >= 0; i-- {
		if i%3 == 2 {
			item = ast.NewListNode(item, ast.NewUintNode(1, i%200))
			want = append(append([]byte{0x01, 0x02}, want...), 0xA5, 0x01, byte(i%200))
		} else {
			item = ast.NewListNode(item)
			want = append([]byte{0x01, 0x01}, want...)
		}
	}
	rt.Assert(rt.BytesEq(item.ToBytes(), want), "chain-bytes")
	st, fn, wb, sid, sys := zzHeaderFields()
	m := ast.NewHSMSDataMessage("", st, fn, wb, "H<->E", item, sid, sys)
	b := m.ToBytes()
	rt.Assert(rt.BytesEq(b, zzFrame(st, fn, wb, sid, sys, want)), "chain-message-bytes")
	got, ok := Parse(append([]byte{}, b...))
	rt.Assert(ok, "chain:decode-ok")
	if ok {
		rt.Assert(rt.BytesEq(got.ToBytes(), b), "chain:re-encode-identical")
	}
	rt.Reach("end")
}

// ZZ_C02_manylists: a list of n empty lists (and one of n empty items of another format):
// n two-byte children behind the header; decodes to the same.
func ZZ_C02_manylists() {
	n, kind := rt.Param("n"), rt.Param("kind")
	kids := make([]interface{}, n)
	child := []byte{0x01, 0x00}
	var c ast.ItemNode = ast.NewListNode()
	if kind == 1 {
		child, c = []byte{0x21, 0x00}, ast.NewBinaryNode()
	}
	want := zzHeader(0, n)
	for i := range kids {
		kids[i] = c
		want = append(want, child...)
	}
	item := ast.NewListNode(kids...)
	rt.Assert(rt.BytesEq(item.ToBytes(), want), "manylists-bytes")
	st, fn, wb, sid, sys := zzHeaderFields()
	rt.Assume(wb == 0)
	m := ast.NewHSMSDataMessage("", st, fn, wb, "H<->E", item, sid, sys)
	b := m.ToBytes()
	got, ok := Parse(append([]byte{}, b...))
	rt.Assert(ok, "manylists:decode-ok")
	if ok {
		rt.Assert(len(got.ToBytes()) == len(b), "manylists:re-encode-length")
	}
	rt.Reach("end")
}

// ZZ_C02_bigmessage: a complete message around one ASCII item of n characters (concrete
// filler; the item and message length fields are what is examined, header fields symbolic):
// n = 16,777,215 makes the message longer than 2^24 bytes, so all four message-length
// bytes matter.
func ZZ_C02_bigmessage() {
	n, parts := rt.Param("n"), rt.Param("parts")
	var item ast.ItemNode = ast.NewASCIINode(strings.Repeat("x", n))
	hdr := zzHeader(0o20, n)
	itemLen := len(hdr) + n
	if parts > 1 {
		// a list of `parts` such items: no single item is near its limit, their sum is beyond it
		kids := make([]interface{}, parts)
		for i := range kids {
			kids[i] = item
		}
		item = ast.NewListNode(kids...)
		itemLen = 2 + parts*itemLen
	}
	st, fn, wb, sid, sys := zzHeaderFields()
	rt.Assume(wb == 0) // one path: the size is what is examined
	m := ast.NewHSMSDataMessage("", st, fn, wb, "H<->E", item, sid, sys)
	b := m.ToBytes()
	total := 14 + itemLen
	rt.Assert(len(b) == total, "big:length")
	ml := total - 4
	rt.Assert(b[0] == byte(ml>>24) && b[1] == byte(ml>>16) && b[2] == byte(ml>>8) && b[3] == byte(ml), "big:message-length-field")
	rt.Assert(int(b[4])<<8|int(b[5]) == sid, "big:session-id")
	off := 14
	if parts > 1 {
		rt.Assert(b[14] == 0x01 && int(b[15]) == parts, "big:list-header")
		off = 16
	}
	for i := range hdr {
		rt.Assert(b[off+i] == hdr[i], "big:item-header")
	}
	rt.Assert(b[len(b)-1] == 'x' && b[off+len(hdr)] == 'x', "big:payload-ends")
	if rt.Param("decode") == 1 {
		got, ok := Parse(b)
		rt.Assert(ok, "big:decode-ok")
		if ok {
			rt.Assert(got.Type() == "data message", "big:decode-type")
			rt.Assert(len(got.ToBytes()) == total, "big:decoded-message-re-encodes-to-the-same-length")
		}
	}
	rt.Reach("end")
}
