//go:build verif

package hsms

import (
	"math"

	"github.com/wolimst/lib-secs2-hsms-go/pkg/ast"
	rt "github.com/wolimst/lib-secs2-hsms-go/pkg/zzverifrt"
)

// item formats in the order list, binary, boolean, ascii, i8, i1, i2, i4, f8, f4, u8, u1, u2, u4
// (codes typed in from SEMI E5, octal)
var zzCodes = []int{0o00, 0o10, 0o11, 0o20, 0o30, 0o31, 0o32, 0o34, 0o40, 0o44, 0o50, 0o51, 0o52, 0o54}
var zzWidth = []int{1, 1, 1, 1, 8, 1, 2, 4, 8, 4, 8, 1, 2, 4}

const (
	zzList = iota
	zzBinary
	zzBoolean
	zzASCII
	zzI8
	zzI1
	zzI2
	zzI4
	zzF8
	zzF4
	zzU8
	zzU1
	zzU2
	zzU4
)

// zzHeader is the E5 item header: format byte, then the shortest big-endian length.
func zzHeader(code int, n int) []byte {
	switch {
	case n <= 0xFF:
		return []byte{byte(code<<2 | 1), byte(n)}
	case n <= 0xFFFF:
		return []byte{byte(code<<2 | 2), byte(n >> 8), byte(n)}
	}
	return []byte{byte(code<<2 | 3), byte(n >> 16), byte(n >> 8), byte(n)}
}

func zzFitsSigned(v int64, w int) bool {
	switch w {
	case 1:
		return rt.And(v >= math.MinInt8, v <= math.MaxInt8)
	case 2:
		return rt.And(v >= math.MinInt16, v <= math.MaxInt16)
	case 4:
		return rt.And(v >= math.MinInt32, v <= math.MaxInt32)
	}
	return true
}

func zzFitsUnsigned(v uint64, w int) bool {
	switch w {
	case 1:
		return v <= math.MaxUint8
	case 2:
		return v <= math.MaxUint16
	case 4:
		return v <= math.MaxUint32
	}
	return true
}

// zzLeaf builds a variable-free leaf item of the given format with n arbitrary in-range
// elements and returns it together with its E5 payload bytes (stated independently of the
// encoder: big-endian by explicit byte selection).
func zzLeaf(kind, n int, pfx string) (item ast.ItemNode, payload []byte) {
	w := zzWidth[kind]
	vals := make([]interface{}, n)
	zzLastVals = vals
	payload = make([]byte, 0, n*w)
	be := func(u uint64) {
		for j := w - 1; j >= 0; j-- {
			payload = append(payload, byte(u>>(8*uint(j))))
		}
	}
	switch kind {
	case zzBinary:
		for i := range vals {
			b := rt.Byte(rt.N(pfx+"b", i))
			vals[i] = int(b)
			payload = append(payload, b)
		}
		return ast.NewBinaryNode(vals...), payload
	case zzBoolean:
		for i := range vals {
			b := rt.Bool(rt.N(pfx+"t", i))
			vals[i] = b
			payload = append(payload, byte(rt.Ite(b, 1, 0)))
		}
		return ast.NewBooleanNode(vals...), payload
	case zzASCII:
		s := rt.String(pfx+"a", n)
		for i := 0; i < n; i++ {
			rt.Assume(s[i] < 0x80)
			payload = append(payload, s[i])
		}
		zzLastVals = []interface{}{s}
		return ast.NewASCIINode(s), payload
	case zzI1, zzI2, zzI4, zzI8:
		for i := range vals {
			v := rt.Int64(rt.N(pfx+"i", i))
			rt.Assume(zzFitsSigned(v, w))
			vals[i] = v
			be(uint64(v))
		}
		return ast.NewIntNode(w, vals...), payload
	case zzU1, zzU2, zzU4, zzU8:
		for i := range vals {
			v := rt.Uint64(rt.N(pfx+"u", i))
			rt.Assume(zzFitsUnsigned(v, w))
			vals[i] = v
			be(v)
		}
		return ast.NewUintNode(w, vals...), payload
	case zzF8:
		for i := range vals {
			v := rt.Float64(rt.N(pfx+"f", i))
			rt.Assume(rt.And(v >= -math.MaxFloat64, v <= math.MaxFloat64))
			vals[i] = v
			be(math.Float64bits(v))
		}
		return ast.NewFloatNode(8, vals...), payload
	case zzF4:
		for i := range vals {
			v := rt.Float64(rt.N(pfx+"f", i))
			rt.Assume(rt.And(v >= -math.MaxFloat32, v <= math.MaxFloat32))
			vals[i] = v
			be(uint64(math.Float32bits(float32(v))))
		}
		return ast.NewFloatNode(4, vals...), payload
	}
	panic("zzLeaf: bad kind")
}

// zzLastVals holds the element values of the leaf zzLeaf built last (for ASCII: the string).
var zzLastVals []interface{}

// zzLeafTemplate is a leaf of the given format whose n elements are all variables p0..pn-1
// (ASCII: one unbounded variable p0), with the map that fills them with vals and a map that
// fills them with zeros.
func zzLeafTemplate(kind, n int, vals []interface{}) (tmpl ast.ItemNode, fill, zeros map[string]interface{}) {
	fill, zeros = map[string]interface{}{}, map[string]interface{}{}
	if kind == zzASCII {
		fill["p0"], zeros["p0"] = vals[0], ""
		return ast.NewASCIINodeVariable("p0", 0, -1), fill, zeros
	}
	names := make([]interface{}, n)
	for i := range names {
		nm := rt.N("p", i)
		names[i] = nm
		fill[nm] = vals[i]
		switch kind {
		case zzBoolean:
			zeros[nm] = false
		case zzF4, zzF8:
			zeros[nm] = 0.0
		default:
			zeros[nm] = 0
		}
	}
	w := zzWidth[kind]
	switch kind {
	case zzBinary:
		tmpl = ast.NewBinaryNode(names...)
	case zzBoolean:
		tmpl = ast.NewBooleanNode(names...)
	case zzI1, zzI2, zzI4, zzI8:
		tmpl = ast.NewIntNode(w, names...)
	case zzU1, zzU2, zzU4, zzU8:
		tmpl = ast.NewUintNode(w, names...)
	default:
		tmpl = ast.NewFloatNode(w, names...)
	}
	return
}

// zzLeafEnc is the full E5 encoding of a leaf.
func zzLeafEnc(kind, n int, payload []byte) []byte {
	return append(zzHeader(zzCodes[kind], n*zzWidth[kind]), payload...)
}

var zzLeafMenu = []int{zzBinary, zzASCII, zzI2, zzF4, zzU8, zzBoolean, zzI8, zzF8, zzU1, zzI1, zzI4, zzU2, zzU4}

// zzTree draws an item tree: lists up to the given depth/width over the first `menu`
// leaf formats (each leaf with 0..maxN elements) and returns the item with its E5 encoding
// (children in order behind a list header holding the element count).
func zzTree(pfx string, depth, width, menu, maxN int) (ast.ItemNode, []byte) {
	nk := menu
	if depth > 0 {
		nk = menu + 1
	}
	k := rt.Choice(pfx+"k", nk)
	if k == menu {
		cnt := rt.Choice(pfx+"w", width+1)
		kids := make([]interface{}, cnt)
		enc := zzHeader(0, cnt)
		for i := 0; i < cnt; i++ {
			c, e := zzTree(rt.N(pfx+"c", i), depth-1, width, menu, maxN)
			kids[i] = c
			enc = append(enc, e...)
		}
		return ast.NewListNode(kids...), enc
	}
	kind := zzLeafMenu[k]
	n := rt.Choice(pfx+"n", maxN+1)
	it, p := zzLeaf(kind, n, pfx)
	return it, zzLeafEnc(kind, n, p)
}

// zzHeaderFields draws arbitrary valid header fields of a complete data message.
func zzHeaderFields() (stream, function, wbit, sid int, sys []byte) {
	stream = int(rt.Byte("stream") & 0x7f)
	function = int(rt.Byte("function"))
	wbit = int(rt.Byte("wbit") & 1)
	rt.Assume(rt.Or(wbit == 0, function%2 == 1))
	sid = int(rt.Uint16("sid"))
	sys = rt.Bytes("sys", 4)
	return
}

// zzFrame is the HSMS framing of a data message around an encoded item.
func zzFrame(stream, function, wbit, sid int, sys []byte, item []byte) []byte {
	n := 10 + len(item)
	out := []byte{byte(n >> 24), byte(n >> 16), byte(n >> 8), byte(n), byte(sid >> 8), byte(sid), byte(wbit<<7 | stream), byte(function), 0, 0}
	out = append(out, sys[:4]...)
	return append(out, item...)
}
