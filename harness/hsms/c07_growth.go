//go:build verif

package hsms

import (
	rt "github.com/wolimst/lib-secs2-hsms-go/pkg/zzverifrt"
)

// zzFamily builds member j of an input family (content bytes arbitrary where it matters):
// 0 one ASCII item of j characters, 1 one binary item of j bytes, 2 a list of j empty lists,
// 3 j nested single-element lists around an empty list, 4 a U2 item of j values,
// 5 a list of j one-character ASCII items, 6 j nested lists each of which declares as many
// elements as there are bytes left behind its header (the most the decoder can be made to
// believe), closed by an empty list: 3-byte length fields natively, 1-byte under the engine;
// 7 j nested two-element lists <L <U1[0]> <L ...>> (a leaf at every level); 8 the same with a
// one-element leaf whose format cycles through ASCII, binary, boolean, I2, U4, F4.
func zzFamily(fam, j int, sym bool) []byte {
	fill := func(n int, lim byte) []byte {
		if sym && n <= 8 {
			b := rt.Bytes(rt.N("f", n), n)
			for i := range b {
				rt.Assume(b[i] < lim)
			}
			return b
		}
		b := make([]byte, n)
		for i := range b {
			b[i] = byte('a' + i%26)
		}
		return b
	}
	var item []byte
	switch fam {
	case 0:
		item = append(zzHeader(0o20, j), fill(j, 0x80)...)
	case 1:
		item = append(zzHeader(0o10, j), fill(j, 0xff)...)
	case 2:
		item = zzHeader(0, j)
		for i := 0; i < j; i++ {
			item = append(item, 0x01, 0x00)
		}
	case 3:
		for i := 0; i < j; i++ {
			item = append(item, 0x01, 0x01)
		}
		item = append(item, 0x01, 0x00)
	case 4:
		item = append(zzHeader(0o52, 2*j), fill(2*j, 0xff)...)
	case 5:
		item = zzHeader(0, j)
		for i := 0; i < j; i++ {
			item = append(item, 0x41, 0x01, 'x')
		}
	case 6, 12, 13: // 12, 13: the lists declare a half / a third of the bytes left (a count that a "so many bytes per element" plausibility test lets through)
		hdr := 2
		if !sym && j > 100 {
			hdr = 4
		}
		total := hdr*j + 2
		for i := 0; i < j; i++ {
			rem := total - hdr*(i+1)
			if fam != 6 {
				rem = rem / (fam - 10)
				if rem < 1 {
					rem = 1
				}
			}
			if hdr == 2 {
				if rem > 255 {
					rem = 255
				}
				item = append(item, 0x01, byte(rem))
			} else {
				item = append(item, 0x03, byte(rem>>16), byte(rem>>8), byte(rem))
			}
		}
		item = append(item, 0x01, 0x00)
	case 7: // j nested two-element lists, each holding an empty U1 item and the next level
		for i := 0; i < j; i++ {
			item = append(item, 0x01, 0x02, 0xA5, 0x00)
		}
		item = append(item, 0x01, 0x00)
	case 9, 10, 11: // j nested single-element lists around an item that is refused: 9 declares more bytes than are left, 10 has an undefined format code, 11 an I4 item of 3 bytes
		for i := 0; i < j; i++ {
			item = append(item, 0x01, 0x01)
		}
		item = append(item, [][]byte{{0x21, 0x09, 1, 2}, {0x3D, 0x01, 0x00}, {0x71, 0x03, 1, 2, 3}}[fam-9]...)
	case 8: // as 7 with a one-element leaf of a different format at each level (ASCII, binary, boolean, I2, U4, F4)
		leaves := [][]byte{{0x41, 0x01, 'x'}, {0x21, 0x01, 0x07}, {0x25, 0x01, 0x01}, {0x69, 0x02, 0xff, 0xfe}, {0xB1, 0x04, 1, 2, 3, 4}, {0x91, 0x04, 0x3f, 0x80, 0, 0}}
		for i := 0; i < j; i++ {
			item = append(item, 0x01, 0x02)
			item = append(item, leaves[i%len(leaves)]...)
		}
		item = append(item, 0x01, 0x00)
	}
	return zzFrame(1, 1, 0, 1, []byte{0, 0, 0, 1}, item)
}

// ZZ_C07_growth: candidate finder for super-linear memory growth, which short inputs cannot
// show directly.  The engine sums the bytes of all variable-size allocation requests while
// decoding members j and 2j of a family; if doubling the input grows the sum by more than a factor 2.5,
// that is a candidate, decided natively: members `scale` and 2*scale of the family are decoded
// for real; runtime TotalAlloc of each is compared with the fixed bound 16 KiB*len+1 MiB and the
// two with each other (doubling the input must not triple the allocation).
func ZZ_C07_growth() {
	fam, j, scale := rt.Param("fam"), rt.Param("j"), rt.Param("scale")
	if !rt.IsSymbolic() {
		// members scale and 2*scale: each within the fixed bound, and doubling the input does not
		// triple the allocation (a linear function at most doubles; Go's amortised slice growth
		// keeps the ratio below 2.5; a quadratic term at this scale approaches 4)
		var got [2]int
		for k := 0; k < 2; k++ {
			in := zzFamily(fam, scale<<uint(k), false)
			rt.AllocBegin(0, 16384*len(in)+1<<20, "alloc:linear-at-scale")
			_, ok := Parse(in)
			got[k] = rt.AllocTotal()
			rt.AllocEnd()
			rt.Assert(ok == (fam < 9) || fam == 6 || fam >= 12, "growth:family-member-decodes")
		}
		rt.Assert(got[1] <= 3*got[0]+1<<20, "alloc:growth-ratio")
		rt.Reach("end")
		return
	}
	var tot [2]int
	for k := 0; k < 2; k++ {
		in := zzFamily(fam, j<<uint(k), k == 0)
		rt.AllocBegin(1<<40, 1<<40, "alloc:unused")
		_, ok := Parse(in)
		tot[k] = rt.AllocTotal()
		rt.AllocEnd()
		rt.Assert(ok == (fam < 9) || fam == 6 || fam >= 12, "growth:family-member-decodes")
	}
	rt.Assert(2*tot[1] <= 5*tot[0]+512, "alloc:growth-ratio")
	rt.Reach("end")
}
