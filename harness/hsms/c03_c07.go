//go:build verif

package hsms

import (
	"github.com/wolimst/lib-secs2-hsms-go/pkg/ast"
	rt "github.com/wolimst/lib-secs2-hsms-go/pkg/zzverifrt"
)

// zzRefItem is a strict reference decoder of one SECS-II item written from the E5 text.
// It returns whether text[*pos:] starts with a well-formed item whose values are
// representable, advances *pos behind it and appends the canonical re-encoding
// (minimal length bytes, booleans 0/1).
func zzRefItem(text []byte, pos *int, canon *[]byte, depth int) bool {
	if *pos >= len(text) {
		return false
	}
	fb := text[*pos]
	code := int(fb >> 2)
	nlb := int(fb & 3)
	if nlb == 0 {
		return false
	}
	if *pos+1+nlb > len(text) {
		return false
	}
	length := 0
	for i := 0; i < nlb; i++ {
		length = length*256 + int(text[*pos+1+i])
	}
	*pos += 1 + nlb
	rem := len(text) - *pos
	if code == 0 {
		// list: length counts elements; every element needs at least two bytes
		if length > rem {
			return false
		}
		n := rt.Concretize(length)
		*canon = append(*canon, zzHeader(0, n)...)
		for i := 0; i < n; i++ {
			if !zzRefItem(text, pos, canon, depth+1) {
				return false
			}
		}
		return true
	}
	w := 0
	for k := 1; k < len(zzCodes); k++ {
		if code == zzCodes[k] {
			w = zzWidth[k]
		}
	}
	if w == 0 {
		return false // undefined format code
	}
	if length > rem {
		return false
	}
	n := rt.Concretize(length)
	if n%w != 0 {
		return false
	}
	payload := text[*pos : *pos+n]
	*pos += n
	*canon = append(*canon, zzHeader(code, n)...)
	switch code {
	case 0o20: // ASCII: 7-bit characters only
		for _, c := range payload {
			if c >= 0x80 {
				return false
			}
		}
		*canon = append(*canon, payload...)
	case 0o11: // boolean: any non-zero byte is true, canonical 1
		for _, c := range payload {
			*canon = append(*canon, byte(rt.Ite(c != 0, 1, 0)))
		}
	case 0o44: // F4: finite values only (exponent not all ones)
		for i := 0; i < n; i += 4 {
			if payload[i]&0x7f == 0x7f && payload[i+1]&0x80 == 0x80 {
				return false
			}
		}
		*canon = append(*canon, payload...)
	case 0o40: // F8
		for i := 0; i < n; i += 8 {
			if payload[i]&0x7f == 0x7f && payload[i+1]&0xf0 == 0xf0 {
				return false
			}
		}
		*canon = append(*canon, payload...)
	default:
		*canon = append(*canon, payload...)
	}
	return true
}

// zzRefMessage: strict reference verdict for a whole byte string (E37 framing + E5 text).
// kind: 0 reject, 1 data message, 2 control message.
func zzRefMessage(in []byte) (kind int, canon []byte) {
	if len(in) < 14 {
		return 0, nil
	}
	ml := int(in[0])<<24 | int(in[1])<<16 | int(in[2])<<8 | int(in[3])
	if ml != len(in)-4 {
		return 0, nil
	}
	if in[8] != 0 { // PType
		return 0, nil
	}
	st := in[9]
	if st == 1 || st == 2 || st == 3 || st == 4 || st == 5 || st == 6 || st == 7 || st == 9 {
		if len(in) != 14 {
			return 0, nil
		}
		return 2, in
	}
	if st != 0 {
		return 0, nil
	}
	if in[6]&0x80 != 0 && in[7]%2 == 0 {
		return 0, nil // W-bit on a reply (even function)
	}
	canon = append(canon, in[:14]...)
	text := in[14:]
	if len(text) == 0 {
		return 1, canon
	}
	pos := 0
	if !zzRefItem(text, &pos, &canon, 0) {
		return 0, nil
	}
	if pos != len(text) {
		return 0, nil
	}
	// message length of the canonical form
	n := len(canon) - 4
	canon[0], canon[1], canon[2], canon[3] = byte(n>>24), byte(n>>16), byte(n>>8), byte(n)
	return 1, canon
}

func zzCompareWithRef(in []byte) {
	var msg ast.HSMSMessage
	var ok bool
	inCopy := append([]byte{}, in...)
	if spare := rt.ParamOr("spare", 0); spare > 0 {
		// the input is the front part of a larger receive buffer: what lies behind it (zeros, or a
		// copy of the input's own bytes) is not part of the message
		buf := make([]byte, len(in)+spare)
		copy(buf, in)
		if spare%2 == 1 {
			copy(buf[len(in):], in)
		}
		in = buf[:len(in)]
	}
	msg, ok = Parse(in)
	kind, canon := zzRefMessage(inCopy)
	if kind == 0 {
		rt.Assert(!ok, "rejects-malformed")
		rt.Reach("rejected")
		return
	}
	rt.Assert(ok, "accepts-well-formed")
	rt.Assert(msg != nil, "accepted-message-non-nil")
	rt.Assert(rt.BytesEq(msg.ToBytes(), canon), "denotes-input-bytes")
	if kind == 1 {
		rt.Assert(msg.Type() == "data message", "data-type")
	} else {
		rt.Assert(msg.Type() != "data message" && msg.Type() != "undefined", "control-type")
	}
	rt.Reach("accepted")
}

// ZZ_C03_raw: k arbitrary text bytes behind a 14-byte frame whose every byte is arbitrary
// except that the message length field is correct (case 0) or arbitrary too (case 1).
func ZZ_C03_raw() {
	k := rt.Param("k")
	in := rt.Bytes("in", 14+k)
	if rt.Param("freelen") == 0 {
		in[0], in[1], in[2], in[3] = 0, 0, 0, byte(10+k)
		// keep the frame a data message so that the text is what is explored
		in[8], in[9] = 0, 0
	}
	zzCompareWithRef(in)
	rt.Reach("end")
}

// ZZ_C03_structured: a valid leaf encoding rewritten with nlb length bytes (non-minimal
// allowed), then one corruption: 0 none, 1 truncate by one byte, 2 append one arbitrary
// byte, 3 declared item length +1, 4 declared item length -1, 5 message length field +1,
// 6 PType != 0, 7 arbitrary SType.
func ZZ_C03_structured() {
	kind, n, nlb, corr := rt.Param("kind"), rt.Param("n"), rt.Param("nlb"), rt.Param("corr")
	w := zzWidth[kind]
	payload := rt.Bytes("p", n*w)
	decl := n * w
	switch corr {
	case 3:
		decl++
	case 4:
		decl--
	}
	if decl < 0 {
		rt.Reach("end")
		return
	}
	item := []byte{byte(zzCodes[kind]<<2 | nlb)}
	for i := nlb - 1; i >= 0; i-- {
		item = append(item, byte(decl>>(8*uint(i))))
	}
	item = append(item, payload...)
	switch corr {
	case 1:
		item = item[:len(item)-1]
	case 2:
		item = append(item, rt.Byte("extra"))
	}
	st, fn, wb, sid, sys := zzHeaderFields()
	in := zzFrame(st, fn, wb, sid, sys, item)
	switch corr {
	case 5:
		in[3]++
	case 6:
		in[8] = rt.Byte("ptype")
		rt.Assume(in[8] != 0)
	case 7:
		in[9] = rt.Byte("stype")
	}
	zzCompareWithRef(in)
	rt.Reach("end")
}

// ZZ_C07_raw: totality and allocation for arbitrary bytes: no panic escapes Parse (checked
// by the engine on every path) and no allocation request is sized by a declared length
// beyond the engine threshold; witnesses are measured natively against
// TotalAlloc <= 16 KiB * len(input) + 1 MiB.
func ZZ_C07_raw() {
	k := rt.Param("k")
	in := rt.Bytes("in", 14+k)
	if rt.Param("freelen") == 0 {
		in[0], in[1], in[2], in[3] = 0, 0, 0, byte(10+k)
		in[8], in[9] = 0, 0
	}
	rt.AllocBegin(64*len(in)+256, 16384*len(in)+1<<20, "alloc:linear-in-input")
	_, ok := Parse(in)
	rt.AllocEnd()
	rt.Observe("ok", ok)
	rt.Reach("end")
}

// ZZ_C07_declared: an item header at nesting depth d (inside d single-element lists) that
// declares an arbitrary 1..3-byte length while only `present` payload bytes follow.
func ZZ_C07_declared() {
	d, nlb, present, kind := rt.Param("depth"), rt.Param("nlb"), rt.Param("present"), rt.Param("kind")
	var item []byte
	for i := 0; i < d; i++ {
		item = append(item, 0x01, 0x01) // L[1]
	}
	item = append(item, byte(zzCodes[kind]<<2|nlb))
	item = append(item, rt.Bytes("len", nlb)...)
	item = append(item, rt.Bytes("p", present)...)
	st, fn, wb, sid, sys := zzHeaderFields()
	in := zzFrame(st, fn, wb, sid, sys, item)
	rt.AllocBegin(64*len(in)+256, 16384*len(in)+1<<20, "alloc:linear-in-input")
	_, ok := Parse(in)
	rt.AllocEnd()
	rt.Observe("ok", ok)
	rt.Reach("end")
}

// ZZ_C03_lenbytes: an ASCII/binary item whose nlb length bytes are all arbitrary while
// `present` filler bytes follow (256 and more, so that every length byte matters): accepted
// iff the declared length equals the bytes present; the reference decoder decides.
func ZZ_C03_lenbytes() {
	kind, nlb, present := rt.Param("kind"), rt.Param("nlb"), rt.Param("present")
	item := []byte{byte(zzCodes[kind]<<2 | nlb)}
	item = append(item, rt.Bytes("len", nlb)...)
	for i := 0; i < present; i++ {
		item = append(item, byte('a'+i%26))
	}
	in := zzFrame(1, 1, 0, 1, []byte{0, 0, 0, 1}, item)
	zzCompareWithRef(in)
	rt.Reach("end")
}

// ZZ_C03_mixed: a list of items whose length fields have different widths in sequence
// (wide with a non-zero high byte, then narrow, ...), the last item's length byte and value
// arbitrary.
func ZZ_C03_mixed() {
	order := rt.Param("order")
	big := func(nlb, n int) []byte {
		it := []byte{byte(0o20<<2 | nlb)}
		for i := nlb - 1; i >= 0; i-- {
			it = append(it, byte(n>>(8*uint(i))))
		}
		for i := 0; i < n; i++ {
			it = append(it, byte('a'+i%26))
		}
		return it
	}
	small := append([]byte{byte(0o51<<2 | 1)}, rt.Byte("len"), rt.Byte("v"))
	var item []byte
	switch order {
	case 0:
		item = append(append(zzHeader(0, 2), big(2, 300)...), small...)
	case 1:
		item = append(append(zzHeader(0, 2), big(3, 257)...), small...)
	case 2:
		item = append(append(append(zzHeader(0, 3), big(3, 256)...), big(2, 256)...), small...)
	case 3:
		item = append(append(append(zzHeader(0, 3), small...), big(2, 511)...), small...)
	}
	in := zzFrame(1, 1, 0, 1, []byte{0, 0, 0, 1}, item)
	zzCompareWithRef(in)
	rt.Reach("end")
}

// ZZ_C07_sparecap: the input is a prefix of a larger receive buffer (len < cap): lengths the
// item declares are bounded by the bytes of the INPUT, not by the buffer behind it; the
// verdict equals that of the same bytes in an exact-capacity slice.
func ZZ_C07_sparecap() {
	nlb, kind, extra := rt.Param("nlb"), rt.Param("kind"), rt.Param("extra")
	item := []byte{byte(zzCodes[kind]<<2 | nlb)}
	item = append(item, rt.Bytes("len", nlb)...)
	item = append(item, rt.Bytes("p", 2)...)
	exact := zzFrame(1, 1, 0, 1, []byte{0, 0, 0, 1}, item)
	buf := make([]byte, len(exact)+extra) // the bytes behind the input stay zero
	copy(buf, exact)
	in := buf[:len(exact)]
	_, okExact := Parse(exact)
	rt.AllocBegin(64*len(in)+256, 16384*len(in)+1<<20, "alloc:linear-in-input")
	_, ok := Parse(in)
	rt.AllocEnd()
	rt.Assert(ok == okExact, "sparecap:verdict-independent-of-capacity")
	rt.Reach("end")
}
