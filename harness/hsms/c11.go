//go:build verif

package hsms

import (
	"github.com/wolimst/lib-secs2-hsms-go/pkg/ast"
	rt "github.com/wolimst/lib-secs2-hsms-go/pkg/zzverifrt"
)

// zzSnap is the observable state of a message.
type zzSnap struct {
	str   string
	bytes []byte
	sys   []byte
	vars  []string
	sid   int
	wait  string
	typ   string
}

func zzSnapMsg(m *ast.DataMessage) zzSnap {
	return zzSnap{m.String(), append([]byte{}, m.ToBytes()...), append([]byte{}, m.SystemBytes()...), append([]string{}, m.Variables()...), m.SessionID(), m.WaitBit(), m.Type()}
}

func zzSameSnap(a, b zzSnap, tag string) {
	rt.Assert(rt.StrEq(a.str, b.str), tag+":string")
	rt.Assert(rt.BytesEq(a.bytes, b.bytes), tag+":bytes")
	rt.Assert(rt.BytesEq(a.sys, b.sys), tag+":system-bytes")
	rt.Assert(rt.StrsEq(a.vars, b.vars), tag+":variables")
	rt.Assert(a.sid == b.sid, tag+":session-id")
	rt.Assert(a.wait == b.wait, tag+":wait-bit")
}

type zzStringer interface{ String() string }

func zzSnapItem(n ast.ItemNode) zzSnap {
	return zzSnap{str: n.(zzStringer).String(), bytes: append([]byte{}, n.ToBytes()...), vars: append([]string{}, n.Variables()...), sid: n.Size()}
}

// ZZ_C11_alias: in-place mutation (by an arbitrary non-zero xor mask) of every slice or map
// that was passed in, or returned by an accessor/encoder, never changes an existing
// message or item.  scn selects the aliasing channel.
func ZZ_C11_alias() {
	scn := rt.Param("scn")
	x := rt.Byte("mask")
	rt.Assume(x != 0)
	st, fn, wb, sid, sys := zzHeaderFields()
	c := rt.Int16("c")
	item := ast.NewListNode(ast.NewIntNode(2, c, "v"), ast.NewBinaryNode(int(rt.Byte("b"))))
	switch scn {
	case 0: // systemBytes argument of the HSMS constructor
		m := ast.NewHSMSDataMessage("n", st, fn, wb, "H->E", item.FillVariables(map[string]interface{}{"v": 1}), sid, sys)
		s0 := zzSnapMsg(m)
		sys[rt.Choice("i", 4)] ^= x
		zzSameSnap(zzSnapMsg(m), s0, "arg-system-bytes")
	case 1: // slice returned by SystemBytes()
		m := ast.NewHSMSDataMessage("n", st, fn, wb, "H->E", item.FillVariables(map[string]interface{}{"v": 1}), sid, sys)
		s0 := zzSnapMsg(m)
		got := m.SystemBytes()
		got[rt.Choice("i", 4)] ^= x
		zzSameSnap(zzSnapMsg(m), s0, "returned-system-bytes")
	case 2: // slice returned by ToBytes()
		m := ast.NewHSMSDataMessage("n", st, fn, wb, "H->E", item.FillVariables(map[string]interface{}{"v": 1}), sid, sys)
		s0 := zzSnapMsg(m)
		b := m.ToBytes()
		b[rt.Choice("i", len(b))] ^= x
		zzSameSnap(zzSnapMsg(m), s0, "returned-bytes")
	case 3: // messages derived from one another share nothing observable
		m := ast.NewDataMessage("n", st, fn, 2, "H->E", item)
		m1 := m.SetSessionIDAndSystemBytes(sid, sys)
		m2 := m1.SetWaitBit(wb == 1)
		m3 := m2.FillVariables(map[string]interface{}{"v": int16(7)})
		s0, s1, s2, s3 := zzSnapMsg(m), zzSnapMsg(m1), zzSnapMsg(m2), zzSnapMsg(m3)
		victim := []*ast.DataMessage{m, m1, m2, m3}[rt.Choice("victim", 4)]
		victim.SystemBytes()[rt.Choice("i", 4)] ^= x
		sys[0] ^= x
		which := rt.Choice("obs", 4)
		got := zzSnapMsg([]*ast.DataMessage{m, m1, m2, m3}[which])
		zzSameSnap(got, []zzSnap{s0, s1, s2, s3}[which], "derived-messages")
	case 4: // the map passed to FillVariables
		vals := map[string]interface{}{"v": rt.Int16("f")}
		filled := item.FillVariables(vals)
		s0, t0 := zzSnapItem(filled), zzSnapItem(item)
		vals["v"] = int16(99)
		delete(vals, "v")
		zzSameSnap(zzSnapItem(filled), s0, "fill-map-result")
		zzSameSnap(zzSnapItem(item), t0, "fill-map-template")
	case 5: // the variadic values slice of a factory
		vals := []interface{}{rt.Int8("e0"), "w", rt.Int8("e1")}
		n := ast.NewIntNode(1, vals...)
		s0 := zzSnapItem(n)
		vals[0], vals[1], vals[2] = int8(1), "zz", int8(2)
		zzSameSnap(zzSnapItem(n), s0, "variadic-slice")
	case 6: // the slice returned by Variables()
		s0 := zzSnapItem(item)
		vs := item.Variables()
		vs[0] = "changed"
		zzSameSnap(zzSnapItem(item), s0, "returned-variables")
		l := ast.NewIntNode(1, "p", "q")
		l0 := zzSnapItem(l)
		lv := l.Variables()
		lv[0], lv[1] = lv[1], lv[0]
		zzSameSnap(zzSnapItem(l), l0, "returned-variables-leaf")
	case 7: // an item shared by two lists and a message
		child := ast.NewIntNode(2, c, "v")
		l1 := ast.NewListNode(child, "lv")
		l2 := ast.NewListNode(ast.NewListNode(child))
		m := ast.NewDataMessage("n", st, fn, 0, "H->E", l2)
		c0, a0, b0, m0 := zzSnapItem(child), zzSnapItem(l1), zzSnapItem(l2), zzSnapMsg(m)
		f1 := l1.FillVariables(map[string]interface{}{"v": rt.Int16("f"), "lv": child})
		f2 := m.FillVariables(map[string]interface{}{"v": int16(3)})
		f1.ToBytes()
		f2.ToBytes()
		zzSameSnap(zzSnapItem(child), c0, "shared-child")
		zzSameSnap(zzSnapItem(l1), a0, "shared-list1")
		zzSameSnap(zzSnapItem(l2), b0, "shared-list2")
		zzSameSnap(zzSnapMsg(m), m0, "shared-message")
	case 8: // the decoder's input buffer
		full := item.FillVariables(map[string]interface{}{"v": 1})
		in := ast.NewHSMSDataMessage("", st, fn, wb, "H<->E", ast.NewListNode(full, ast.NewASCIINode("ab")), sid, sys).ToBytes()
		msg, ok := Parse(in)
		rt.Assert(ok, "decode-ok")
		d := msg.(*ast.DataMessage)
		s0 := zzSnapMsg(d)
		in[rt.Choice("i", len(in))] ^= x
		zzSameSnap(zzSnapMsg(d), s0, "decoder-input")
	case 10: // system bytes arguments that are windows into a larger buffer (spare capacity)
		frame := rt.Bytes("frame", 20)
		k := rt.Choice("k", 6) // argument length 0..5
		arg := frame[10 : 10+k]
		m0 := ast.NewDataMessage("n", st, fn, 0, "H->E", item)
		m1 := m0.SetSessionIDAndSystemBytes(sid, arg)
		m2 := ast.NewHSMSDataMessage("n", st, fn, wb, "H->E", item.FillVariables(map[string]interface{}{"v": 1}), sid, arg)
		before := append([]byte{}, frame...)
		s1, s2 := zzSnapMsg(m1), zzSnapMsg(m2)
		// the constructors must not have written into the caller's buffer either
		rt.Assert(rt.BytesEq(frame, before), "window-arg:buffer-untouched")
		frame[rt.Choice("i", 20)] ^= x
		zzSameSnap(zzSnapMsg(m1), s1, "window-arg:set-session")
		zzSameSnap(zzSnapMsg(m2), s2, "window-arg:constructor")
		d := m1.SetWaitBit(false).FillVariables(map[string]interface{}{"v": 2})
		sd := zzSnapMsg(d)
		frame[10] ^= x
		zzSameSnap(zzSnapMsg(d), sd, "window-arg:derived")
	case 11: // histories: observe, derive, observe again (caches filled by an observer must not be shared with derived messages)
		m0 := ast.NewHSMSDataMessage("n", st, fn, wb, "H->E", item.FillVariables(map[string]interface{}{"v": 1}), sid, sys)
		t0 := ast.NewDataMessage("t", st, fn, 2, "H->E", item)
		pool := []*ast.DataMessage{m0, t0}
		snaps := []zzSnap{zzSnapMsg(m0), zzSnapMsg(t0)}
		for step := 0; step < rt.Param("h"); step++ {
			src := pool[rt.Choice(rt.N("src", step), len(pool))]
			var nm *ast.DataMessage
			switch rt.Choice(rt.N("op", step), 4) {
			case 0:
				nm = src.SetSessionIDAndSystemBytes(int(rt.Uint16(rt.N("nsid", step))), rt.Bytes(rt.N("nsys", step), 4))
			case 1:
				nm = src.SetWaitBit(false)
			case 2:
				nm = src.FillVariables(map[string]interface{}{"v": int16(rt.Int16(rt.N("nv", step)))})
			case 3:
				src.ToBytes()
				_ = src.String()
				nm = src.SetSessionIDAndSystemBytes(int(rt.Uint16(rt.N("nsid", step))), rt.Bytes(rt.N("nsys", step), 4)).SetWaitBit(false)
			}
			pool = append(pool, nm)
			snaps = append(snaps, zzSnapMsg(nm))
			for i, p := range pool {
				zzSameSnap(zzSnapMsg(p), snaps[i], "history")
			}
		}
	case 12: // the slice returned by an ITEM's ToBytes(), for items of 0, 1 and 2 values of every format
		mk := func(kind, n int) ast.ItemNode {
			vals := make([]interface{}, n)
			for i := range vals {
				switch kind {
				case 1, 2:
					vals[i] = int(1 + i)
				case 3:
					vals[i] = i == 0
				case 4, 5:
					vals[i] = float64(i) + 0.5
				default:
					vals[i] = 3 + i
				}
			}
			switch kind {
			case 0:
				return ast.NewListNode(vals...)
			case 1:
				return ast.NewBinaryNode(vals...)
			case 2:
				return ast.NewASCIINode("xy"[:n])
			case 3:
				return ast.NewBooleanNode(vals...)
			case 4:
				return ast.NewFloatNode(4, vals...)
			case 5:
				return ast.NewFloatNode(8, vals...)
			case 6, 7, 8, 9:
				return ast.NewIntNode(1<<uint(kind-6), vals...)
			}
			return ast.NewUintNode(1<<uint(kind-10), vals...)
		}
		kind, n := rt.Param("kind"), rt.Param("n")
		if kind == 0 {
			n = 0 // list elements are items
		}
		it := mk(kind, n)
		s0 := zzSnapItem(it)
		b := it.ToBytes()
		b[rt.Choice("i", len(b))] ^= x
		zzSameSnap(zzSnapItem(it), s0, "item-bytes:same-item")
		zzSameSnap(zzSnapItem(mk(kind, n)), s0, "item-bytes:equal-item-built-afterwards")
		holder := ast.NewListNode(mk(kind, n), it)
		hb := holder.ToBytes()
		rt.Assert(rt.BytesEq(hb[2:2+len(s0.bytes)], s0.bytes), "item-bytes:inside-a-list")
		rt.Assert(rt.BytesEq(hb[2+len(s0.bytes):], s0.bytes), "item-bytes:inside-a-list")
		hb[rt.Choice("j", len(hb))] ^= x
		zzSameSnap(zzSnapItem(it), s0, "list-bytes:element-unchanged")
	case 16: // the decoder's input buffer, with items big enough for any size-dependent fast path (5000 characters / bytes)
		posSel := rt.Choice("i", 7) // drawn first: also a path the engine cannot finish has it among its inputs
		big := make([]byte, 5000)
		for i := range big {
			big[i] = byte('a' + i%26)
		}
		vals := make([]interface{}, 5000)
		for i := range vals {
			vals[i] = i % 251
		}
		in := ast.NewHSMSDataMessage("", st, fn, wb, "H<->E", ast.NewListNode(ast.NewASCIINode(string(big)), ast.NewBinaryNode(vals...)), sid, sys).ToBytes()
		msg, ok := Parse(in)
		rt.Assert(ok, "decode-ok")
		d := msg.(*ast.DataMessage)
		b0 := append([]byte{}, d.ToBytes()...)
		pos := []int{5, 13, 20, 2500, 5019, 5030, len(in) - 1}[posSel]
		in[pos] ^= x
		rt.Assert(rt.BytesEq(d.ToBytes(), b0), "decoder-input-big:bytes")
	case 13: // deriving from a list template (ellipsis anywhere, any repeat count) leaves the template as it was
		shape := rt.Choice("shape", 4)
		var tmpl ast.ItemNode
		one, two := ast.NewIntNode(1, 1, "p"), ast.NewASCIINodeVariable("q", 0, 2)
		switch shape {
		case 0:
			tmpl = ast.NewListNode(one, "...", two, "lv")
		case 1:
			tmpl = ast.NewListNode(one, two, "...")
		case 2:
			tmpl = ast.NewListNode(ast.NewListNode(one, "...[0]", "lv"), "...[1]", two, ast.NewBinaryNode(5))
		case 3:
			tmpl = ast.NewListNode("lv", one, "...", ast.NewBooleanNode(true), two, ast.NewUintNode(2, 7))
		}
		s0 := zzSnapItem(tmpl)
		name := "..."
		if shape == 2 {
			name = []string{"...[0]", "...[1]"}[rt.Choice("which", 2)]
		}
		n := rt.Choice("n", 3)
		d := tmpl.FillVariables(map[string]interface{}{name: n})
		sd := zzSnapItem(d)
		zzSameSnap(zzSnapItem(tmpl), s0, "list-derive:template-unchanged")
		d2 := tmpl.FillVariables(map[string]interface{}{name: 2 - n, "q": "zz"})
		zzSameSnap(zzSnapItem(tmpl), s0, "list-derive:template-unchanged-after-second")
		zzSameSnap(zzSnapItem(d), sd, "list-derive:first-result-unchanged-by-second")
		_ = d2
		// a map that also holds keys naming nothing in the template: an ellipsis-shaped one, an index-shaped one
		stray := []string{"...[9]", "...", "p[0]", "zz"}[rt.Choice("stray", 4)]
		if shape != 2 && stray == "..." {
			stray = "...[3]"
		}
		sd2 := zzSnapItem(d2)
		d3 := tmpl.FillVariables(map[string]interface{}{stray: 1, "p": int8(rt.Byte("pv") & 0x3f), "q": "y"})
		zzSameSnap(zzSnapItem(tmpl), s0, "list-derive:template-unchanged-by-fill-with-stray-key")
		zzSameSnap(zzSnapItem(d), sd, "list-derive:first-result-unchanged-by-fill-with-stray-key")
		zzSameSnap(zzSnapItem(d2), sd2, "list-derive:second-result-unchanged-by-fill-with-stray-key")
		_ = d3
	case 14: // two fills of one template with different values: the first result keeps its values
		kind := rt.Param("kind")
		v1, v2 := rt.Byte("v1"), rt.Byte("v2")
		var tmpl ast.ItemNode
		var a, b interface{}
		switch kind {
		case 0:
			tmpl, a, b = ast.NewBooleanNode(true, "p", false, "q"), v1&1 == 1, v2&1 == 1
		case 1:
			tmpl, a, b = ast.NewBinaryNode(9, "p", 8, "q"), int(v1), int(v2)
		case 2:
			tmpl, a, b = ast.NewIntNode(2, 9, "p", 8, "q"), int16(v1), int16(v2)
		case 3:
			tmpl, a, b = ast.NewUintNode(4, 9, "p", 8, "q"), uint32(v1), uint32(v2)
		case 4:
			tmpl, a, b = ast.NewFloatNode(8, 9.5, "p", 8.5, "q"), float64(v1), float64(v2)
		case 5:
			tmpl, a, b = ast.NewASCIINodeVariable("p", 0, -1), string([]byte{v1 & 0x7f}), string([]byte{v2 & 0x7f, 'z'})
		case 6:
			tmpl, a, b = ast.NewListNode(ast.NewUintNode(1, 1), "p", ast.NewBooleanNode("q")), ast.NewBinaryNode(int(v1)), ast.NewBinaryNode(int(v2), 3)
		}
		s0 := zzSnapItem(tmpl)
		f1 := tmpl.FillVariables(map[string]interface{}{"p": a})
		s1 := zzSnapItem(f1)
		f2 := tmpl.FillVariables(map[string]interface{}{"p": b})
		s2 := zzSnapItem(f2)
		var qa interface{} = a
		if kind == 6 {
			qa = true
		}
		f3 := f1.FillVariables(map[string]interface{}{"q": qa})
		zzSameSnap(zzSnapItem(tmpl), s0, "two-fills:template")
		zzSameSnap(zzSnapItem(f1), s1, "two-fills:first-result")
		zzSameSnap(zzSnapItem(f2), s2, "two-fills:second-result")
		_ = f3
	case 15: // answering a control request leaves the request as it was (and can be done twice)
		which := rt.Param("kind")
		var req ast.HSMSMessage
		switch which {
		case 0:
			req = ast.NewHSMSMessageSelectReq(uint16(sid), sys)
		case 1:
			req = ast.NewHSMSMessageDeselectReq(uint16(sid), sys)
		case 2:
			req = ast.NewHSMSMessageLinktestReq(sys)
		}
		q0, t0 := append([]byte{}, req.ToBytes()...), req.Type()
		mk := func() ast.HSMSMessage {
			switch which {
			case 0:
				return ast.NewHSMSMessageSelectRsp(req, rt.Byte("status"))
			case 1:
				return ast.NewHSMSMessageDeselectRsp(req, rt.Byte("status"))
			}
			return ast.NewHSMSMessageLinktestRsp(req)
		}
		r1 := mk()
		b1 := append([]byte{}, r1.ToBytes()...)
		rt.Assert(rt.BytesEq(req.ToBytes(), q0), "control:request-unchanged-by-response")
		rt.Assert(req.Type() == t0, "control:request-type-unchanged-by-response")
		r2 := mk()
		rt.Assert(rt.BytesEq(r2.ToBytes(), b1), "control:second-response-equal")
		out := r2.ToBytes()
		out[4+rt.Choice("j", 10)] ^= x
		rt.Assert(rt.BytesEq(r1.ToBytes(), b1), "control:responses-do-not-share")
		rt.Assert(rt.BytesEq(req.ToBytes(), q0), "control:request-unchanged-by-response-bytes")
	case 9: // control messages: header argument, ToBytes result, decoder input
		hdr := rt.Bytes("hdr", 10)
		cm := ast.NewHSMSControlMessage(hdr)
		b0, t0 := append([]byte{}, cm.ToBytes()...), cm.Type()
		hdr[rt.Choice("i", 10)] ^= x
		rt.Assert(rt.BytesEq(cm.ToBytes(), b0), "control:header-argument")
		rt.Assert(cm.Type() == t0, "control:header-argument-type")
		out := cm.ToBytes()
		out[4+rt.Choice("j", 10)] ^= x
		rt.Assert(rt.BytesEq(cm.ToBytes(), b0), "control:returned-bytes")
		req := ast.NewHSMSMessageSelectReq(uint16(sid), sys)
		rsp := ast.NewHSMSMessageSelectRsp(req, 0)
		r0, q0 := append([]byte{}, rsp.ToBytes()...), append([]byte{}, req.ToBytes()...)
		sys[1] ^= x
		rt.Assert(rt.BytesEq(req.ToBytes(), q0), "control:req-system-bytes-argument")
		rt.Assert(rt.BytesEq(rsp.ToBytes(), r0), "control:rsp-after-req-argument-mutation")
	}
	rt.Reach("end")
}
