//go:build verif

package sml

import (
	"github.com/wolimst/lib-secs2-hsms-go/pkg/ast"
	"github.com/wolimst/lib-secs2-hsms-go/pkg/parser/hsms"
	rt "github.com/wolimst/lib-secs2-hsms-go/pkg/zzverifrt"
)

// ZZ_C01_sml: a message built by the SML parser (text with symbolic digits, characters and
// booleans), completed, encoded, decoded by the HSMS decoder and encoded again.
func ZZ_C01_sml() {
	which := rt.Param("which")
	d1, _, _ := zzDigits("a", 2, 10)
	rt.Assume(d1[0] != '0') // a leading zero would be read as octal (unspecified in SML)
	d2, _, _ := zzDigits("b", 2, 16)
	c := rt.Byte("c")
	rt.Assume(rt.And(rt.And(c >= 32, c < 127), c != '"'))
	var text string
	switch which {
	case 0:
		text = "S1F1 W H->E N\n<L <U2 " + d1 + " 0x" + d2 + "> <A \"" + string([]byte{c}) + "x\"> <B 0x" + d2 + "> <BOOLEAN T F>>\n."
	case 1:
		text = "S6F11 H<-E\n<L <I4 -" + d1 + "> <L <F4 1.5> <U8 " + d1 + d1 + ">> <A[0]> <L[0]>>\n."
	case 2:
		text = "S2F" + d1 + "\n<I1 0x" + d2[:1] + ">\n."
	}
	m := zzOne(text, "sml-built")
	if which == 2 {
		rt.Assume(m.FunctionCode()%2 == 0 || true)
	}
	sid := int(rt.Uint16("sid"))
	sys := rt.Bytes("sys", 4)
	full := m.SetSessionIDAndSystemBytes(sid, sys)
	b := full.ToBytes()
	rt.Assert(len(b) > 14, "sml-built:encodes")
	got, ok := hsms.Parse(append([]byte{}, b...))
	rt.Assert(ok, "sml-built:decodes")
	d, isData := got.(*ast.DataMessage)
	rt.Assert(isData, "sml-built:data-message")
	rt.Assert(d.StreamCode() == m.StreamCode() && d.FunctionCode() == m.FunctionCode(), "sml-built:codes")
	rt.Assert(d.WaitBit() == full.WaitBit(), "sml-built:wait-bit")
	rt.Assert(d.SessionID() == sid, "sml-built:session-id")
	rt.Assert(rt.BytesEq(d.SystemBytes(), sys), "sml-built:system-bytes")
	rt.Assert(rt.BytesEq(got.ToBytes(), b), "sml-built:re-encode-identical")
	// the decoder itself as a source: decode the re-encoding once more
	again, ok2 := hsms.Parse(got.ToBytes())
	rt.Assert(ok2, "decoder-built:decodes")
	rt.Assert(rt.BytesEq(again.ToBytes(), b), "decoder-built:re-encode-identical")
	rt.Reach("end")
}
