//go:build verif

package sml

import rt "github.com/wolimst/lib-secs2-hsms-go/pkg/zzverifrt"

// ZZ_SML_smoke: engine bring-up harness (not part of a property's job table).
func ZZ_SML_smoke() {
	var text string
	switch rt.Param("which") {
	case 0:
		text = "S1F1 W H->E Name\n<L[2]\n  <A \"hello\">\n  <U2 1 2 0x10>\n  <I4 -5 x>\n <F4 1.5 -2e3> <B 0b101 0xFF> <BOOLEAN T f>\n <A[2..5] av> ...>\n.\nS2F2 [W]\n."
	case 1:
		text = "S1F1 W H->E Name // c\n<U1 " + rt.String("d", 2) + ">\n."
	case 2:
		text = "S1F1\n<A \"" + rt.String("s", 2) + "\">\n."
	case 3:
		text = rt.String("t", 3)
	}
	msgs, errs, warns := Parse(text)
	rt.Observe("nmsgs", len(msgs))
	rt.Observe("nerrs", len(errs))
	rt.Observe("nwarns", len(warns))
	for _, m := range msgs {
		rt.Observe("msg", m.String())
	}
	rt.Observe("errs", errs)
	rt.Observe("warns", warns)
	rt.Reach("end")
}
