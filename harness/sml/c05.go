//go:build verif

package sml

import (
	"strconv"

	rt "github.com/wolimst/lib-secs2-hsms-go/pkg/zzverifrt"
)

func zzMaxU(w int) uint64 {
	if w == 8 {
		return ^uint64(0)
	}
	return 1<<(8*uint(w)) - 1
}

// ZZ_C05_int: "<TYPE lit>" for the integer item types, B and A (character code) with an
// integer literal of syntax class cls (0 decimal, 1 hex, 2 octal, 3 binary), optional
// minus sign (neg=1) and k symbolic digits; upper/lower case of the base prefix symbolic.
// Expected: representable => one message holding exactly that value; else error, no message.
func ZZ_C05_int() {
	typ, cls, k, neg := rt.Param("typ"), rt.Param("cls"), rt.Param("k"), rt.Param("neg")
	base := []int{10, 16, 8, 2}[cls]
	var digits string
	var val uint64
	var huge bool
	if edge := rt.Param("edge"); edge > 0 {
		// boundary literals: the leading digits of the type's largest magnitude are concrete, the
		// last `edge` digits symbolic, so the literal straddles the limit of the type
		w := zzWidth[typ]
		limit := zzMaxU(w)
		if zzIsSigned(typ) {
			limit = limit>>1 + uint64(neg)
		}
		if typ == zzB {
			limit = 255
		}
		if typ == zzA {
			limit = 127
		}
		beyond := edge == 4
		if edge >= 3 {
			// literals around and beyond 2^64 (what strconv reports as a range error with a clamped value):
			// edge 3 straddles 2^64-1, edge 4 is one digit longer than 2^64-1
			limit, edge = ^uint64(0), 1
		}
		pw := uint64(1)
		for i := 0; i < edge; i++ {
			pw *= uint64(base)
		}
		pre := limit / pw
		preStr := strconv.FormatUint(pre, base)
		if beyond {
			preStr = strconv.FormatUint(limit, base)
		}
		tail, tv, _ := zzDigits("d", edge, base)
		digits = preStr + tail
		hi := pre > (^uint64(0)-tv)/pw
		huge = rt.Or(hi, beyond)
		val = pre*pw + tv
		if pre == 0 {
			rt.Assume(tail[0] != '0')
		}
	} else {
		digits, val, huge = zzDigits("d", k, base)
		if cls == 0 && k > 1 {
			rt.Assume(digits[0] != '0') // a leading zero would be read as octal by Go's base-0 rule (unspecified in SML)
		}
	}
	prefix := ""
	if cls > 0 {
		p := rt.Byte("pfx")
		lo, up := "xob"[cls-1], "XOB"[cls-1]
		rt.Assume(rt.Or(p == lo, p == up))
		prefix = "0" + string([]byte{p})
	}
	sign := ""
	if neg == 1 {
		sign = "-"
	}
	text := "S1F1\n<" + zzTypes[typ] + " " + sign + prefix + digits + ">\n."
	w := zzWidth[typ]
	var ok bool
	var wantBits uint64
	switch {
	case zzIsSigned(typ):
		lim := uint64(1) << (8*uint(w) - 1) // |min|
		if neg == 1 {
			ok = rt.And(!huge, val <= lim)
			wantBits = (-val) & zzMaxU(w)
		} else {
			ok = rt.And(!huge, val <= lim-1)
			wantBits = val
		}
	case zzIsUnsigned(typ):
		if neg == 1 {
			ok = false // a minus sign has no unsigned reading (even "-0" is refused leniently: not asserted below)
		} else {
			ok = rt.And(!huge, val <= zzMaxU(w))
			wantBits = val
		}
	case typ == zzB:
		if neg == 1 {
			ok = rt.And(!huge, val == 0)
		} else {
			ok = rt.And(!huge, val <= 255)
		}
		wantBits = val
	case typ == zzA:
		if neg == 1 {
			ok = false
		} else {
			ok = rt.And(!huge, val <= 127)
		}
		wantBits = val
	}
	if (zzIsUnsigned(typ) || typ == zzA) && neg == 1 {
		// "-0": unspecified whether an unsigned item takes it; only non-zero values must be refused
		rt.Assume(rt.Or(huge, val != 0))
	}
	if ok {
		m := zzOne(text, "int-literal")
		p := zzPayload(m)
		rt.Assert(len(p) == w, "int-literal:one-element")
		rt.Assert(zzBEv(p, w) == wantBits, "int-literal:value")
		rt.Reach("accepted")
	} else {
		zzRejected(text, "unrepresentable-int-literal")
		rt.Reach("rejected")
	}
	rt.Reach("end")
}

// ZZ_C05_two: two literals in one item are stored in order.
func ZZ_C05_two() {
	typ := rt.Param("typ")
	d1, v1, _ := zzDigits("a", 2, 10)
	d2, v2, _ := zzDigits("b", 2, 16)
	rt.Assume(d1[0] != '0')
	rt.Assume(rt.And(v1 <= 127, v2 <= 127))
	text := "S1F1\n<" + zzTypes[typ] + " " + d1 + " 0x" + d2 + ">\n."
	m := zzOne(text, "two-literals")
	p := zzPayload(m)
	w := zzWidth[typ]
	rt.Assert(len(p) == 2*w, "two-literals:count")
	rt.Assert(zzBEv(p, w) == v1, "two-literals:first")
	rt.Assert(zzBEv(p[w:], w) == v2, "two-literals:second")
	rt.Reach("end")
}

// ZZ_C05_wrongtype: literals of the wrong kind for the item type produce an error and no message.
func ZZ_C05_wrongtype() {
	typ, which := rt.Param("typ"), rt.Param("which")
	lits := []string{"1.5", "1e2", "T", "\"a\"", "5", ".5", "1.", "-1.5e-1", "f"}
	lit := lits[which]
	isNum := which == 4
	isFloatSyntax := which == 0 || which == 1 || which == 5 || which == 6 || which == 7
	isBool := which == 2 || which == 8
	isStr := which == 3
	var ok bool
	switch {
	case typ == zzF4 || typ == zzF8:
		ok = isNum || isFloatSyntax
	case typ == zzBOOL:
		ok = isBool
	case typ == zzA:
		ok = isNum || isStr
	default: // integers and binary
		ok = isNum
	}
	text := "S1F1\n<" + zzTypes[typ] + " " + lit + ">\n."
	if ok {
		zzOne(text, "literal-kind-accepted")
	} else {
		zzRejected(text, "wrong-literal-kind")
	}
	rt.Reach("end")
}

// ZZ_C05_string: <A "k arbitrary bytes"> (no double quote inside): all bytes printable
// 7-bit => stored exactly as written (SML has no escape sequences); a byte >= 0x80 or a line
// break => error and no message.  Control characters other than CR/LF are left unconstrained.
func ZZ_C05_string() {
	k := rt.Param("k")
	s := rt.String("s", k)
	bad, ctl := false, false
	for i := 0; i < k; i++ {
		c := s[i]
		rt.Assume(c != '"')
		bad = rt.Or(bad, rt.Or(c >= 0x80, rt.Or(c == '\n', c == '\r')))
		ctl = rt.Or(ctl, rt.Or(c < 32, c == 127))
	}
	text := "S1F1\n<A \"" + s + "\">\n."
	if bad {
		zzRejected(text, "non-ascii-or-multiline-string")
		rt.Reach("end")
		return
	}
	rt.Assume(!ctl)
	m := zzOne(text, "string-literal")
	p := zzPayload(m)
	rt.Assert(len(p) == k, "string-literal:length")
	for i := 0; i < k && i < len(p); i++ {
		rt.Assert(p[i] == s[i], "string-literal:bytes")
	}
	rt.Reach("end")
}

// ZZ_C05_mixed: strings and character codes concatenate in order: <A "x" 0x41 "y" 10>.
func ZZ_C05_mixed() {
	a, b := rt.Byte("a"), rt.Byte("b")
	rt.Assume(rt.And(rt.And(a >= 32, a < 127), rt.And(a != '"', a != '\\')))
	rt.Assume(rt.And(rt.And(b >= 32, b < 127), rt.And(b != '"', b != '\\')))
	d, v, _ := zzDigits("d", 2, 16)
	rt.Assume(v <= 127)
	text := "S1F1\n<A \"" + string([]byte{a}) + "\" 0x" + d + " \"" + string([]byte{b}) + "\" 10>\n."
	m := zzOne(text, "mixed-ascii")
	p := zzPayload(m)
	rt.Assert(len(p) == 4, "mixed-ascii:length")
	rt.Assert(p[0] == a, "mixed-ascii:first")
	rt.Assert(uint64(p[1]) == v, "mixed-ascii:code")
	rt.Assert(p[2] == b, "mixed-ascii:third")
	rt.Assert(p[3] == 10, "mixed-ascii:decimal-code")
	rt.Reach("end")
}

// ZZ_C05_bool: T/F in either case, stored as written.
func ZZ_C05_bool() {
	c1, c2 := rt.Byte("c1"), rt.Byte("c2")
	isT := func(c byte) bool { return rt.Or(c == 'T', c == 't') }
	isF := func(c byte) bool { return rt.Or(c == 'F', c == 'f') }
	rt.Assume(rt.Or(isT(c1), isF(c1)))
	rt.Assume(rt.Or(isT(c2), isF(c2)))
	text := "S1F1\n<BOOLEAN " + string([]byte{c1}) + " " + string([]byte{c2}) + ">\n."
	m := zzOne(text, "bool-literal")
	p := zzPayload(m)
	rt.Assert(len(p) == 2, "bool-literal:count")
	rt.Assert(p[0] == byte(rt.Ite(isT(c1), 1, 0)), "bool-literal:first")
	rt.Assert(p[1] == byte(rt.Ite(isT(c2), 1, 0)), "bool-literal:second")
	rt.Reach("end")
}

// ZZ_C05_float: float literals from a fixed menu (the text->float mapping itself is
// trusted strconv and runs concretely); expected values are Go constants, i.e. computed by
// the compiler's exact constant arithmetic, not by strconv.
func ZZ_C05_float() {
	typ, i := rt.Param("typ"), rt.Param("i")
	texts := []string{"1.5", "-2e3", ".5", "5.", "1e39", "1e400", "0.1", "-0", "3.4028235e38", "1E-3", "16777217", "+7",
		"1.0000000596046447753906251", "1152921573326323713", "3.4028235e+38", "-3.4028235e+38", "1.7976931348623157e308", "4.9e-324", "1e-46"}
	f64 := []float64{1.5, -2e3, .5, 5., 1e39, 0, 0.1, 0, 3.4028235e38, 1e-3, 16777217, 7,
		1.0000000596046447753906251, 1152921573326323713, 3.4028235e+38, -3.4028235e+38, 1.7976931348623157e308, 4.9e-324, 1e-46}
	f32 := []float32{1.5, -2e3, .5, 5., 0, 0, 0.1, 0, 3.4028235e38, 1e-3, 16777216, 7,
		1.0000000596046447753906251, 1152921573326323713, 3.4028235e+38, -3.4028235e+38, 0, 0, 0}
	text := "S1F1\n<" + zzTypes[typ] + " " + texts[i] + ">\n."
	overflow := i == 5 || (typ == zzF4 && (i == 4 || i == 16))
	if overflow {
		zzRejected(text, "float-overflow")
		rt.Reach("end")
		return
	}
	m := zzOne(text, "float-literal")
	p := zzPayload(m)
	if typ == zzF8 {
		want := f64bits(f64[i])
		if i == 7 {
			want = 1 << 63 // "-0" is negative zero
		}
		rt.Assert(zzBEv(p, 8) == want, "float-literal:f8-bits")
	} else {
		want := uint64(f32bits(f32[i]))
		if i == 7 {
			want = 1 << 31
		}
		rt.Assert(zzBEv(p, 4) == want, "float-literal:f4-bits")
	}
	rt.Reach("end")
}

// ZZ_C05_floatmix: the same spelling in F4 and F8 items of one text (either order, in one
// list and in consecutive messages) denotes the value of the written type each time.
func ZZ_C05_floatmix() {
	which := rt.Param("which")
	lits := []string{"0.1", "16777217", "1e-3", "3.3"}
	v64 := []float64{0.1, 16777217, 1e-3, 3.3}
	v32 := []float32{0.1, 16777217, 1e-3, 3.3}
	li := rt.Param("lit")
	var text string
	switch which {
	case 0:
		text = "S1F1\n<L <F4 " + lits[li] + "> <F8 " + lits[li] + ">>\n."
	case 1:
		text = "S1F1\n<L <F8 " + lits[li] + "> <F4 " + lits[li] + ">>\n."
	case 2:
		text = "S1F1\n<F4 " + lits[li] + ">\n.\nS1F1\n<F8 " + lits[li] + ">\n."
	}
	msgs, errs, _ := Parse(text)
	rt.Assert(len(errs) == 0, "floatmix:no-error")
	var all []byte
	for _, m := range msgs {
		all = append(all, m.SetSessionIDAndSystemBytes(1, []byte{0, 0, 0, 0}).SetWaitBit(false).ToBytes()...)
	}
	b4 := []byte{0x91, 4, byte(f32bits(v32[li]) >> 24), byte(f32bits(v32[li]) >> 16), byte(f32bits(v32[li]) >> 8), byte(f32bits(v32[li]))}
	b8 := []byte{0x81, 8}
	for sh := 56; sh >= 0; sh -= 8 {
		b8 = append(b8, byte(f64bits(v64[li])>>uint(sh)))
	}
	contains := func(hay, needle []byte) bool {
		for i := 0; i+len(needle) <= len(hay); i++ {
			ok := true
			for j := range needle {
				if hay[i+j] != needle[j] {
					ok = false
					break
				}
			}
			if ok {
				return true
			}
		}
		return false
	}
	rt.Assert(contains(all, b4), "floatmix:f4-value")
	rt.Assert(contains(all, b8), "floatmix:f8-value")
	rt.Reach("end")
}

// ZZ_C05_radix: a binary/octal literal whose k digits are ANY decimal digits: it denotes a
// value only if every digit is below the radix; otherwise the item must be refused (never
// split into several literals).
func ZZ_C05_radix() {
	typ, cls, k := rt.Param("typ"), rt.Param("cls"), rt.Param("k")
	base := uint64([]int{10, 16, 8, 2}[cls])
	digits := rt.String("d", k)
	val, wellFormed := uint64(0), true
	for i := 0; i < k; i++ {
		c := digits[i]
		rt.Assume(rt.And(c >= '0', c <= '9'))
		wellFormed = rt.And(wellFormed, uint64(c-'0') < base)
		val = val*base + uint64(c-'0')
	}
	text := "S1F1\n<" + zzTypes[typ] + " 0" + string("xob"[cls-1]) + digits + ">\n."
	w := zzWidth[typ]
	lim := zzMaxU(w)
	if zzIsSigned(typ) {
		lim = lim >> 1
	}
	if typ == zzB {
		lim = 255
	}
	if rt.And(wellFormed, val <= lim) {
		m := zzOne(text, "radix-literal")
		p := zzPayload(m)
		rt.Assert(len(p) == w, "radix-literal:one-element")
		rt.Assert(zzBEv(p, w) == val, "radix-literal:value")
	} else {
		zzRejected(text, "digit-outside-radix")
	}
	rt.Reach("end")
}

// ZZ_C05_follow: a literal with one arbitrary byte directly behind it, "<TYPE lit?>": unless
// the byte can continue a number (digits, hex digits, radix and exponent letters, sign,
// point), the text is either rejected or the item holds exactly the one value the literal
// denotes - a literal is never cut into a shorter literal and something else.
func ZZ_C05_follow() {
	lit := rt.Param("lit")
	typ := []string{"U2", "I4", "B", "U1", "F8", "F4", "U4", "I8"}[lit]
	text := []string{"12", "-7", "0x1F", "0b101", "1.5", "2e3", "0o17", "1"}[lit]
	want := [][]byte{{0, 12}, {0xff, 0xff, 0xff, 0xf9}, {0x1f}, {5}, {0x3f, 0xf8, 0, 0, 0, 0, 0, 0}, {0x44, 0xfa, 0, 0}, {0, 0, 0, 15}, {0, 0, 0, 0, 0, 0, 0, 1}}[lit]
	c := rt.Byte("c")
	cont := rt.Or(rt.Or(rt.And(c >= '0', c <= '9'), rt.And(c|0x20 >= 'a', c|0x20 <= 'f')),
		rt.Or(rt.Or(c|0x20 == 'x', c|0x20 == 'o'), rt.Or(rt.Or(c == '.', c == '+'), rt.Or(c == '-', c|0x20 == 'p'))))
	rt.Assume(!cont)
	msgs, errs, _ := Parse("S1F1\n<" + typ + " " + text + string([]byte{c}) + ">\n.")
	if len(errs) == 0 {
		rt.Assert(len(msgs) == 1, "follow:one-message")
		p := zzPayload(msgs[0])
		rt.Assert(rt.BytesEq(p, want), "follow:exactly-the-literal")
		rt.Reach("accepted")
	} else {
		rt.Assert(len(msgs) == 0, "follow:no-message")
	}
	rt.Reach("end")
}

// ZZ_C05_signs: a sign that no digit follows (alone, doubled, at the end of the item) denotes
// no value: three characters drawn from {+, -, blank, 1..9} behind a literal 5; whenever one of
// them is a sign not directly followed by a digit, the text is rejected and holds no message.
func ZZ_C05_signs() {
	typ := zzTypes[rt.Param("typ")]
	var b [3]byte
	bad := false
	for i := range b {
		c := rt.Byte(rt.N("c", i))
		rt.Assume(rt.Or(rt.Or(c == '+', c == '-'), rt.Or(c == ' ', rt.And(c >= '1', c <= '9'))))
		b[i] = c
	}
	for i := range b {
		sign := rt.Or(b[i] == '+', b[i] == '-')
		digitNext := false
		if i+1 < len(b) {
			digitNext = rt.And(b[i+1] >= '1', b[i+1] <= '9')
		}
		bad = rt.Or(bad, rt.And(sign, !digitNext))
	}
	rt.Assume(bad)
	msgs, errs, _ := Parse("S1F1\n<" + typ + " 5 " + string(b[:]) + ">\n.")
	rt.Assert(len(errs) > 0, "signs:sign-without-digit-rejected")
	rt.Assert(len(msgs) == 0, "signs:no-message")
	rt.Reach("end")
}

// ZZ_C05_vars: variables between literals keep their place and their spelling: two variables
// whose names differ only in letter case (every case pattern) are two variables.
func ZZ_C05_vars() {
	form := rt.Param("form")
	n1 := "cei"
	b := []byte(n1)
	diff := false
	for i := range b {
		up := rt.Bool(rt.N("up", i))
		b[i] = byte(rt.Ite(up, int(b[i]-32), int(b[i])))
		diff = rt.Or(diff, up)
	}
	rt.Assume(diff)
	n2 := string(b)
	var text string
	switch form {
	case 0:
		text = "S1F1\n<U1 1 " + n1 + " 2 " + n2 + ">\n."
	case 1:
		text = "S1F1\n<L <I2 " + n1 + "> <A " + n2 + "> <BOOLEAN T>>\n."
	case 2:
		text = "S1F1\n<L " + n1 + " <B 7 " + n2 + ">>\n."
	}
	m := zzOne(text, "case-variants")
	vs := m.Variables()
	rt.Assert(len(vs) == 2, "case-variants:both-kept")
	if len(vs) == 2 {
		rt.Assert(rt.And(rt.StrEq(vs[0], n1), rt.StrEq(vs[1], n2)), "case-variants:spelling-kept")
	}
	rt.Reach("end")
}
