//go:build verif

package sml

import (
	"github.com/wolimst/lib-secs2-hsms-go/pkg/ast"
	rt "github.com/wolimst/lib-secs2-hsms-go/pkg/zzverifrt"
)

// zzText draws one accepted text from a menu; symbolic holes are named with the prefix.
func zzText(i int, pfx string) string {
	d, _, _ := zzDigits(pfx+"d", 1, 10)
	switch i {
	case 0: // variables, an ellipsis and a length-constrained ASCII variable
		return "S1F1 W H->E A\n<L <U1 " + d + "> x ... <A[1..2] s>>\n."
	case 1: // the same names again, two ellipses (numbering), no direction (warning)
		return "S2F3\n<L <B x> ... <L <I2 y " + d + "> ...>>\n."
	case 2: // header only
		return "S6F12 [W] H<-E\n."
	case 3: // name directly before the line end and terminator
		return "S1F2 H<->E Nm" + d + "\n."
	case 4: // terminator directly behind '>'
		return "S9F9 W\n<BOOLEAN T>."
	case 7: // more than 32 variables, and names the other texts use too
		t := "S7F1 W\n<L x y s"
		for i := 0; i < 36; i++ {
			t += " q" + rt.N("", i)[1:]
		}
		return t + " <U1 " + d + ">>\n."
	case 8: // an explicitly, wrongly numbered ellipsis (warning)
		return "S8F1\n<L <U1 " + d + "> ...[5] <L x ...[7]>>\n."
	case 12: // a reply without direction (warning), e.g. behind its primary message
		return "S1F2\n<U1 " + d + ">\n."
	case 13: // a primary with W and an explicit direction
		return "S1F1 W H->E\n<U1 " + d + ">\n."
	case 10: // 34 wrongly numbered ellipses: 34 warnings from one message
		t := "S8F3\n<L"
		for i := 0; i < 34; i++ {
			t += " <L <U1 " + d + "> ...[" + rt.N("", 40+i)[1:] + "]>"
		}
		return t + ">\n."
	case 11: // the names the other texts use, inside items of every type
		return "S5F1 W\n<L <B x> <BOOLEAN y> <A s> <F4 q0> <I1 q1 " + d + "> <U1 q2> <F8 q3> <I8 q4> <U8 q5> <L <BOOLEAN q6 T> q7>>\n."
	case 9: // k arbitrary bytes in front of a message (accepted alone only for some of them: white space, comments, ...)
		return rt.String(pfx+"pre", rt.Param("k")) + "S1F2 H<-E\n<U1 " + d + ">\n."
	case 14: // many messages with a body in one text (state that every message leaves behind adds up)
		t := ""
		for i := 0; i < 70; i++ {
			t += "S1F" + rt.N("", 2*i+1)[1:] + " W H->E <L <U1 " + d + "> <L x>>. "
		}
		return t
	case 15: // a message nested 24 deep, with a variable and an ellipsis at the bottom
		t := "S4F1 W H<-E\n"
		for i := 0; i < 24; i++ {
			t += "<L "
		}
		t += "<U1 " + d + "> y ..."
		for i := 0; i < 24; i++ {
			t += ">"
		}
		return t + "\n."
	case 16: // a very long line: a warning beyond column 131,072 (positions packed into one integer, 16-bit columns)
		long := ""
		for i := 0; i < 14; i++ {
			long += "xxxxxxxxxx"
		}
		l2 := ""
		for i := 0; i < 1000; i++ {
			l2 += long
		}
		return "S1F1 W H->E <A \"" + l2 + "\">. S1F" + d + " ."
	case 17: // wide: a list of 110 numbers and a list of 60 strings next to them
		t := "S6F11 W H<-E big\n<L"
		for i := 0; i < 110; i++ {
			t += " <U1 " + d + ">"
		}
		t += " <L"
		for i := 0; i < 60; i++ {
			t += " <A \"x\">"
		}
		return t + " <L x ...>>>\n."
	case 18: // deep: 130 nested lists
		t := "S6F13 W H<-E\n"
		for i := 0; i < 130; i++ {
			t += "<L "
		}
		t += "<U1 " + d + ">"
		for i := 0; i < 130; i++ {
			t += ">"
		}
		return t + "\n."
	case 5: // two messages in one text, second without direction on the same line as its terminator
		return "S1F1\n<A \"" + d + "\">\n.\nS1F2 ."
	}
	return "S3F" + d + " [W]\n<L x>\n." // list variable named like the others
}

func zzSep(i int, pfx string) string {
	switch i {
	case 0:
		return ""
	case 1:
		return " "
	case 2:
		return "\n"
	case 3:
		return "\r\n"
	case 4:
		return "\t"
	case 5:
		return " // comment . S1F1\n"
	case 6:
		return "\n\n  "
	case 8: // runs of blanks other than the four ASCII ones (one- and multi-byte)
		return "\u00a0\u00a0"
	case 9:
		return "\n\u3000\u3000"
	case 10:
		return "\u2028\u2029"
	case 11:
		return "\v\u0085\f "
	}
	c := rt.Byte(pfx + "ws")
	rt.Assume(rt.Or(rt.Or(c == ' ', c == '\t'), rt.Or(c == '\n', c == '\r')))
	return string([]byte{c})
}

func zzSameMessage(a, b *ast.DataMessage, tag string) {
	rt.Assert(rt.StrEq(a.String(), b.String()), tag+":printed-form")
	rt.Assert(rt.StrsEq(a.Variables(), b.Variables()), tag+":variables")
	rt.Assert(a.StreamCode() == b.StreamCode(), tag+":stream")
	rt.Assert(a.FunctionCode() == b.FunctionCode(), tag+":function")
	rt.Assert(a.WaitBit() == b.WaitBit(), tag+":wait-bit")
	rt.Assert(a.Direction() == b.Direction(), tag+":direction")
	rt.Assert(rt.StrEq(a.Name(), b.Name()), tag+":name")
}

// zzShift gives the line shift and the column shift (for diagnostics on the first line of
// the appended text) caused by a prefix.
func zzShift(prefix string) (dl int, lastLineLen int) {
	for i := 0; i < len(prefix); i++ {
		if prefix[i] == '\n' {
			dl++
			lastLineLen = 0
		} else {
			lastLineLen++
		}
	}
	return
}

// ZZ_C19_concat: Parse(t1 sep t2 [sep' t3]) returns the messages of the parts in order,
// each identical to what parsing its text alone returns; warnings move by the prefix.
func ZZ_C19_concat() {
	i1, i2, s1 := rt.Param("t1"), rt.Param("t2"), rt.Param("sep")
	parts := []string{zzText(i1, "a"), zzText(i2, "b")}
	seps := []string{zzSep(s1, "s")}
	if rt.Param("three") == 1 {
		parts = append(parts, zzText(rt.Param("t3"), "c"))
		seps = append(seps, zzSep(rt.Param("sep2"), "r"))
	}
	whole := ""
	var alone [][]*ast.DataMessage
	var wantWarn []string
	var wantLine []int
	var wantCol []int
	for k, p := range parts {
		if k > 0 {
			whole += seps[k-1]
		}
		msgs, errs, warns := Parse(p)
		if len(errs) != 0 && []int{i1, i2}[k%2] == 9 && k < 2 {
			rt.Reach("end") // an arbitrary text that is not accepted alone: outside the property's domain
			return
		}
		rt.Assert(len(errs) == 0, "part:accepted")
		alone = append(alone, msgs)
		dl, ll := zzShift(whole)
		for _, w := range warns {
			line, col, ok := rt.ParseLnCol(w)
			rt.Assert(ok, "part:warning-format")
			wantWarn = append(wantWarn, rt.DiagText(w))
			wantLine = append(wantLine, line+dl)
			if line == 1 {
				col += ll
			}
			wantCol = append(wantCol, col)
		}
		whole += p
	}
	msgs, errs, warns := Parse(whole)
	rt.Assert(len(errs) == 0, "concat:no-error")
	n := 0
	for _, a := range alone {
		n += len(a)
	}
	rt.Assert(len(msgs) == n, "concat:message-count-adds-up")
	k := 0
	for _, a := range alone {
		for _, m := range a {
			if k < len(msgs) {
				zzSameMessage(msgs[k], m, "concat")
			}
			k++
		}
	}
	rt.Assert(len(warns) == len(wantWarn), "concat:warning-count")
	for j := range wantWarn {
		if j < len(warns) {
			line, col, ok := rt.ParseLnCol(warns[j])
			rt.Assert(ok, "concat:warning-format")
			rt.Assert(rt.StrEq(rt.DiagText(warns[j]), wantWarn[j]), "concat:warning-text")
			rt.Assert(line == wantLine[j], "concat:warning-line-shifted")
			rt.Assert(col == wantCol[j], "concat:warning-column-shifted")
		}
	}
	rt.Reach("end")
}
