//go:build verif

package sml

import (
	"math"

	"github.com/wolimst/lib-secs2-hsms-go/pkg/ast"
	rt "github.com/wolimst/lib-secs2-hsms-go/pkg/zzverifrt"
)

// zzRoundTrip prints m, parses the text and requires exactly one message, no errors, no
// warnings, equal header fields, variables, printed form and (when complete) bytes.
func zzRoundTrip(m *ast.DataMessage, tag string) {
	text := m.String()
	msgs, errs, warns := Parse(text)
	rt.Assert(len(errs) == 0, tag+":no-error")
	rt.Assert(len(warns) == 0, tag+":no-warning")
	rt.Assert(len(msgs) == 1, tag+":one-message")
	if len(msgs) != 1 {
		return
	}
	p := msgs[0]
	zzSameMessage(p, m, tag)
	if len(m.Variables()) == 0 {
		c1 := m.SetSessionIDAndSystemBytes(7, []byte{1, 2, 3, 4}).SetWaitBit(false)
		c2 := p.SetSessionIDAndSystemBytes(7, []byte{1, 2, 3, 4}).SetWaitBit(false)
		rt.Assert(rt.BytesEq(c2.ToBytes(), c1.ToBytes()), tag+":bytes")
	}
}

// ZZ_C04_header: every stream/function code, the three wait-bit states, three directions
// and a message name of k arbitrary bytes that the header lexer reads as exactly one name.
func ZZ_C04_header() {
	k := rt.Param("k")
	st, fn := 1, 3
	if rt.Param("sf") == 1 {
		st, fn = int(rt.Byte("stream")&0x7f), int(rt.Byte("function"))
	}
	wb := rt.Choice("wbit", 3)
	if wb == 1 {
		rt.Assume(fn%2 == 1)
	}
	dir := []string{"H->E", "H<-E", "H<->E"}[rt.Choice("dir", 3)]
	name := rt.String("name", k)
	if k > 0 {
		l := lex(name)
		t1 := l.nextToken()
		rt.Assume(t1.typ == tokenTypeMessageName)
		rt.Assume(rt.StrEq(t1.val, name))
		t2 := l.nextToken()
		rt.Assume(t2.typ == tokenTypeEOF)
	}
	var m *ast.DataMessage
	if rt.Try(func() { m = ast.NewDataMessage(name, st, fn, wb, dir, ast.NewEmptyItemNode()) }) {
		rt.Assume(false) // names the constructor refuses (white space) are not messages
	}
	zzRoundTrip(m, "header")
	if rt.Param("item") == 1 {
		m2 := ast.NewDataMessage(name, st, fn, wb, dir, ast.NewListNode(ast.NewUintNode(1, 5), "v"))
		zzRoundTrip(m2, "header+item")
	}
	rt.Reach("end")
}

// ZZ_C04_ascii: an ASCII item of k arbitrary 7-bit characters (quote, backslash, control
// characters and DEL included).
func ZZ_C04_ascii() {
	k := rt.Param("k")
	s := rt.String("s", k)
	for i := 0; i < k; i++ {
		rt.Assume(s[i] < 0x80)
	}
	m := ast.NewDataMessage("n", 1, 1, 0, "H->E", ast.NewListNode(ast.NewASCIINode(s), ast.NewASCIINode("")))
	zzRoundTrip(m, "ascii")
	rt.Reach("end")
}

// ZZ_C04_leaf: numeric/binary/boolean leaves; 1- and 2-byte formats with every value
// symbolic, 4- and 8-byte formats with boundary values (menu) in the quick tier and
// symbolic values when wide=1.
func ZZ_C04_leaf() {
	typ, n, wide := rt.Param("typ"), rt.Param("n"), rt.Param("wide")
	w := zzWidth[typ]
	vals := make([]interface{}, n)
	for i := range vals {
		nm := rt.N("v", i)
		switch {
		case typ == zzB:
			vals[i] = int(rt.Byte(nm))
		case typ == zzBOOL:
			vals[i] = rt.Bool(nm)
		case zzIsSigned(typ):
			var v int64
			if w == 1 {
				v = int64(rt.Int8(nm))
			} else if w == 2 {
				v = int64(rt.Int16(nm))
			} else if wide == 1 {
				v = rt.Int64(nm)
				lim := int64(1) << (8*uint(w) - 1)
				if w < 8 {
					rt.Assume(rt.And(v >= -lim, v <= lim-1))
				}
			} else {
				lim := int64(1) << (8*uint(w) - 1)
				v = []int64{0, 1, -1, lim - 1, -lim, 1000000007, -999999999}[rt.Choice(nm+"c", 7)]
			}
			vals[i] = v
		case zzIsUnsigned(typ):
			var v uint64
			if w == 1 {
				v = uint64(rt.Uint8(nm))
			} else if w == 2 {
				v = uint64(rt.Uint16(nm))
			} else if wide == 1 {
				v = rt.Uint64(nm)
				if w < 8 {
					rt.Assume(v <= zzMaxU(w))
				}
			} else {
				v = []uint64{0, 1, zzMaxU(w), zzMaxU(w) - 1, 1 << 31, 4000000000}[rt.Choice(nm+"c", 6)]
			}
			vals[i] = v
		}
	}
	var item ast.ItemNode
	switch {
	case typ == zzB:
		item = ast.NewBinaryNode(vals...)
	case typ == zzBOOL:
		item = ast.NewBooleanNode(vals...)
	case zzIsSigned(typ):
		item = ast.NewIntNode(w, vals...)
	default:
		item = ast.NewUintNode(w, vals...)
	}
	zzRoundTrip(ast.NewDataMessage("", 1, 2, 0, "H<-E", item), "leaf")
	rt.Reach("end")
}

// ZZ_C04_float: float items from a menu of boundary values (shortest-digit printing and
// text->float conversion are trusted strconv; they run concretely through the engine).
func ZZ_C04_float() {
	w := rt.Param("w")
	var menu []float64
	if w == 4 {
		menu = []float64{0, 1.5, -2.25, 0.1, float64(float32(0.1)), math.MaxFloat32, -math.MaxFloat32, math.SmallestNonzeroFloat32, 16777216, 1e-10, 3e38, 123456.789,
			// the float32 whose shortest decimal lies within half a float64 ulp of the midpoint of two
			// float32 neighbours (reading it through float64 and narrowing rounds twice), and -0
			float64(math.Float32frombits(0x15AE43FD)), float64(math.Float32frombits(0x95AE43FD)), math.Copysign(0, -1)}
	} else {
		menu = []float64{0, 1.5, -2.25, 0.1, math.MaxFloat64, -math.MaxFloat64, math.SmallestNonzeroFloat64, 9007199254740993, 1e-300, 1e300, 123456.789, math.Copysign(0, -1)}
	}
	a, b := menu[rt.Choice("a", len(menu))], menu[rt.Choice("b", len(menu))]
	item := ast.NewFloatNode(w, a, b)
	zzRoundTrip(ast.NewDataMessage("", 1, 2, 0, "H<-E", item), "float")
	rt.Reach("end")
}

// ZZ_C04_vars: templates with variables in every node kind, ASCII variables with arbitrary
// small bounds and nested ellipses with canonical numbering.
func ZZ_C04_vars() {
	which := rt.Param("which")
	lo := rt.IntRange("lo", 0, 12)
	hiSel := rt.Choice("hisel", 2)
	hi := -1
	if hiSel == 1 {
		hi = rt.IntRange("hi", 0, 12)
		rt.Assume(lo <= hi)
	}
	av := ast.NewASCIINodeVariable("s", lo, hi)
	var item ast.ItemNode
	switch which {
	case 0:
		item = av
	case 1:
		item = ast.NewListNode(av, ast.NewIntNode(2, "va", zzC04Const(), "vb[0][1]"), "lv", ast.NewBooleanNode("vt", true))
	case 2: // one ellipsis: printed as "...", parsed back as "...[0]" or "..."
		item = ast.NewListNode(ast.NewUintNode(1, "x"), "...")
	case 3: // nested ellipses, canonical numbering in order of appearance
		item = ast.NewListNode(ast.NewListNode(av, "...[0]"), ast.NewBinaryNode("y", 3), "...[1]", ast.NewListNode(ast.NewFloatNode(4, "vf"), "...[2]"))
	case 4:
		item = ast.NewListNode(ast.NewListNode(ast.NewListNode("deep[2]", "...[0]")), "...[1]", av)
	case 5: // names generated by an expansion: lot[0], lot[1], w[0][1] ...; the remaining ellipsis is renumbered
		t := ast.NewListNode(ast.NewListNode(ast.NewUintNode(2, "lot"), ast.NewListNode("w", "...[0]"), "...[1]"), av, "...[2]")
		item = t.FillVariables(map[string]interface{}{"...[1]": 1 + rt.Choice("n1", 2), "...[0]": rt.Choice("n0", 2)})
	case 6: // ASCII length bounds around 2^31, 2^32 and at the largest int
		big := []int{2147483647, 2147483648, 4294967295, 4294967296, 99999999999, 9223372036854775807}[rt.Choice("big", 6)]
		if rt.Choice("side", 2) == 0 {
			item = ast.NewASCIINodeVariable("s", 0, big)
		} else {
			item = ast.NewListNode(ast.NewASCIINodeVariable("s", big, -1), ast.NewASCIINodeVariable("u", big, big))
		}
	}
	wb := rt.Choice("wbit", 3)
	m := ast.NewDataMessage("Tmpl", 3, 1, wb, "H<->E", item)
	text := m.String()
	msgs, errs, warns := Parse(text)
	rt.Assert(len(errs) == 0, "template:no-error")
	rt.Assert(len(warns) == 0, "template:no-warning")
	rt.Assert(len(msgs) == 1, "template:one-message")
	if len(msgs) == 1 {
		p := msgs[0]
		rt.Assert(rt.StrEq(p.String(), text), "template:printed-form")
		mv, pv := m.Variables(), p.Variables()
		rt.Assert(len(mv) == len(pv), "template:variable-count")
		for i := range mv {
			if i < len(pv) {
				// a single ellipsis may come back as "..." or "...[0]"
				same := mv[i] == pv[i] || (mv[i] == "..." && pv[i] == "...[0]")
				rt.Assert(same, "template:variables")
			}
		}
		rt.Assert(p.WaitBit() == m.WaitBit(), "template:wait-bit")
	}
	rt.Reach("end")
}

// ZZ_C04_fixed: the converse: for accepted texts (menu with symbolic holes) printing each
// returned message and parsing it again returns a message equal to it.
func ZZ_C04_fixed() {
	text := zzText(rt.Param("t"), "h")
	msgs, errs, _ := Parse(text)
	rt.Assert(len(errs) == 0, "accepted-text")
	for _, m := range msgs {
		again, errs2, warns2 := Parse(m.String())
		rt.Assert(len(errs2) == 0, "fixed-point:no-error")
		rt.Assert(len(warns2) == 0, "fixed-point:no-warning")
		rt.Assert(len(again) == 1, "fixed-point:one-message")
		if len(again) == 1 {
			zzSameMessage(again[0], m, "fixed-point")
		}
	}
	rt.Reach("end")
}

func zzC04Const() int16 {
	if rt.Param("symc") == 1 {
		return int16(rt.Int8("c"))
	}
	return -100
}
