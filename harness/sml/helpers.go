//go:build verif

package sml

import (
	"math"

	"github.com/wolimst/lib-secs2-hsms-go/pkg/ast"
	rt "github.com/wolimst/lib-secs2-hsms-go/pkg/zzverifrt"
)

// item types in the order L, B, BOOLEAN, A, I8, I1, I2, I4, F8, F4, U8, U1, U2, U4
var zzTypes = []string{"L", "B", "BOOLEAN", "A", "I8", "I1", "I2", "I4", "F8", "F4", "U8", "U1", "U2", "U4"}
var zzWidth = []int{1, 1, 1, 1, 8, 1, 2, 4, 8, 4, 8, 1, 2, 4}

const (
	zzL = iota
	zzB
	zzBOOL
	zzA
	zzI8
	zzI1
	zzI2
	zzI4
	zzF8
	zzF4
	zzU8
	zzU1
	zzU2
	zzU4
)

func zzIsSigned(t int) bool   { return t == zzI1 || t == zzI2 || t == zzI4 || t == zzI8 }
func zzIsUnsigned(t int) bool { return t == zzU1 || t == zzU2 || t == zzU4 || t == zzU8 }

// zzDigits draws k characters constrained to the digits of the base and returns the text
// and the value they denote (saturating: huge=true when it does not fit 64 bits).
func zzDigits(name string, k, base int) (text string, val uint64, huge bool) {
	text = rt.String(name, k)
	for i := 0; i < k; i++ {
		c := text[i]
		var d uint64
		switch base {
		case 10:
			rt.Assume(rt.And(c >= '0', c <= '9'))
			d = uint64(c - '0')
		case 8:
			rt.Assume(rt.And(c >= '0', c <= '7'))
			d = uint64(c - '0')
		case 2:
			rt.Assume(rt.And(c >= '0', c <= '1'))
			d = uint64(c - '0')
		case 16:
			isDec := rt.And(c >= '0', c <= '9')
			isLo := rt.And(c >= 'a', c <= 'f')
			isUp := rt.And(c >= 'A', c <= 'F')
			rt.Assume(rt.Or(isDec, rt.Or(isLo, isUp)))
			// value of a hex digit without branching: '0'..'9' -> c-48, 'a'.. -> c-87, 'A'.. -> c-55
			d = uint64(rt.Ite(isDec, int(c)-48, rt.Ite(isLo, int(c)-87, int(c)-55)))
		}
		// val*base + d with overflow detection
		hi := val > (^uint64(0)-d)/uint64(base)
		huge = rt.Or(huge, hi)
		val = val*uint64(base) + d
	}
	return
}

// zzOne parses a text that must yield exactly one message without errors.
func zzOne(text string, tag string) *ast.DataMessage {
	msgs, errs, _ := Parse(text)
	rt.Assert(len(errs) == 0, tag+":no-error")
	rt.Assert(len(msgs) == 1, tag+":one-message")
	return msgs[0]
}

// zzRejected asserts that a text produces at least one error and no message.
func zzRejected(text string, tag string) {
	msgs, errs, _ := Parse(text)
	rt.Assert(len(errs) > 0, tag+":error-reported")
	rt.Assert(len(msgs) == 0, tag+":no-message")
}

// zzPayload returns the element bytes of a complete item (behind the E5 header).
func zzPayload(m *ast.DataMessage) []byte {
	b := m.SetSessionIDAndSystemBytes(1, []byte{0, 0, 0, 0}).SetWaitBit(false).ToBytes()
	if len(b) < 16 {
		return nil
	}
	nlb := int(b[14] & 3)
	return b[15+nlb:]
}

func zzBEv(p []byte, w int) uint64 {
	var u uint64
	for j := 0; j < w; j++ {
		u = u<<8 | uint64(p[j])
	}
	return u
}

func f64bits(f float64) uint64 { return math.Float64bits(f) }
func f32bits(f float32) uint32 { return math.Float32bits(f) }
