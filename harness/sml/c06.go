//go:build verif

package sml

import (
	"github.com/wolimst/lib-secs2-hsms-go/pkg/ast"
	rt "github.com/wolimst/lib-secs2-hsms-go/pkg/zzverifrt"
)

var zzSkeletons = []string{
	"S1F1 W H->E Name\n<L[2]\n <A \"x\">\n <U1 1>\n>\n.",
	"S6F11 [W] H<-E\n<L <B 0x1F> v ... >\n.",
	"S2F2\n.",
	"S1F3 W\n<A[1..2] av>\n.",
	"S1F1 // c\n<BOOLEAN T F>\n.\nS1F2\n<F4 1.5>\n.",
	"S1F1\n<L <A x> <A[3] x>>\n.",
	"S1F1 W\n<L <U1 1> // unfinished, comment up to the end of input",
	"S1F2 // header, then a comment up to the end of input",
	"S1F1\n<A \"x\"> // terminator missing",
	"S1F1 a \u20ac\n<U1 1>\n.",
	"S1F2 W H->E xy \U0001F600 // \u00e9\n<L v\u00e9 <A \"\u20ac\">>\n.",
}

// zzTotalChecks: the result obligations of Parse on any input: all-or-nothing and
// well-formed, in-range diagnostic positions.
func zzTotalChecks(text string, msgs []*ast.DataMessage, errs, warns []string) {
	if len(errs) > 0 {
		rt.Assert(len(msgs) == 0, "all-or-nothing:errors-imply-no-messages")
	}
	nLF := 0
	for i := 0; i < len(text); i++ {
		nLF += rt.Ite(text[i] == '\n', 1, 0)
	}
	for _, list := range [][]string{errs, warns} {
		for _, e := range list {
			line, col, ok := rt.ParseLnCol(e)
			rt.Assert(ok, "diagnostic:format-Ln-Col")
			rt.Assert(rt.And(line >= 1, line <= 1+nLF), "diagnostic:line-inside-input")
			rt.Assert(rt.And(col >= 1, col <= 1+len(text)), "diagnostic:column-inside-input")
			// the column lies inside (or just behind) the line it names: 1 + bytes of that line
			cur, lineLen := 1, 0
			for i := 0; i < len(text); i++ {
				nl := text[i] == '\n'
				lineLen += rt.Ite(rt.And(!nl, cur == line), 1, 0)
				cur += rt.Ite(nl, 1, 0)
			}
			rt.Assert(col <= 1+lineLen, "diagnostic:column-inside-its-line")
		}
	}
}

func zzParseTotal(text string) []*ast.DataMessage {
	rt.AllocBegin(1<<20, 4<<20+65536*len(text), "alloc:not-sized-by-numbers-in-text")
	msgs, errs, warns := Parse(text)
	rt.AllocEnd()
	zzTotalChecks(text, msgs, errs, warns)
	return msgs
}

// ZZ_C06_raw: every string of k arbitrary bytes (invalid UTF-8 included).
func ZZ_C06_raw() {
	zzParseTotal(rt.String("t", rt.Param("k")))
	rt.Reach("end")
}

// ZZ_C06_soup: a skeleton from the SML vocabulary with n arbitrary bytes inserted at
// position pos (all positions explored when pos < 0).
func ZZ_C06_soup() {
	sk := zzSkeletons[rt.Param("sk")]
	n, pos := rt.Param("n"), rt.Param("pos")
	if pos < 0 {
		pos = rt.Choice("pos", len(sk)+1)
	}
	if pos > len(sk) {
		rt.Reach("end")
		return
	}
	text := sk[:pos] + rt.String("x", n) + sk[pos:]
	zzParseTotal(text)
	rt.Reach("end")
}

// ZZ_C06_base: the unmodified skeletons: no error => every message in the input, in order.
func ZZ_C06_base() {
	want := [][2]int{{1, 1}, {6, 11}, {2, 2}, {1, 3}, {1, 1}, {0, 0}, {0, 0}, {0, 0}, {0, 0}, {1, 1}, {0, 0}}
	for i, sk := range zzSkeletons {
		msgs := zzParseTotal(sk)
		switch i {
		case 4:
			rt.Assert(len(msgs) == 2, "base:both-messages-returned")
			rt.Assert(msgs[0].FunctionCode() == 1 && msgs[1].FunctionCode() == 2, "base:in-order")
		case 5, 6, 7, 8, 9, 10:
			rt.Assert(len(msgs) == 0, "base:erroneous-text-returns-no-message")
		default:
			rt.Assert(len(msgs) == 1, "base:one-message")
			rt.Assert(msgs[0].StreamCode() == want[i][0] && msgs[0].FunctionCode() == want[i][1], "base:codes")
		}
	}
	rt.Reach("end")
}

// ZZ_C06_numbers: every place where a number written in the text is turned into a size,
// count or code, with k symbolic decimal digits: no panic, no hang, no allocation sized by
// the number.
func ZZ_C06_numbers() {
	which, k := rt.Param("which"), rt.Param("k")
	d, _, _ := zzDigits("d", k, 10)
	var text string
	switch which {
	case 0:
		text = "S1F1\n<L <A x> <A[" + d + "] x>>\n." // duplicate ASCII variable with a declared size
	case 1:
		text = "S1F1\n<A[" + d + ".." + d + "] \"abc\">\n."
	case 2:
		text = "S" + d + "F" + d + "\n."
	case 3:
		text = "S1F1\n<U1 " + d + ">\n."
	case 4:
		text = "S1F1\n<L <U1 1> ...[" + d + "]>\n."
	case 5:
		text = "S1F1\n<L v[" + d + "] <B w[" + d + "][" + d + "]>>\n."
	case 6:
		text = "S1F1\n<A " + d + " \"a\">\n."
	case 7:
		text = "S1F1\n<A[" + d + "..] v>\n."
	case 8:
		text = "S1F1\n<L[" + d + "] <A[.." + d + "] v>>\n."
	case 9:
		text = "S1F1\n<B " + d + " 0b" + d + ">\n."
	case 10: // stream code around 2^63 (k symbolic trailing digits)
		text = "S" + "9223372036854775808"[:19-k] + d + "F1 W H->E\n."
	case 11: // function code around 2^64
		text = "S1F" + "18446744073709551615"[:20-k] + d + " H<-E\n<U1 1>\n."
	case 12: // size bound and ellipsis index around 2^63
		text = "S1F1\n<L[" + "9223372036854775807"[:19-k] + d + "] <U1 1> ...[" + "9223372036854775808"[:19-k] + d + "]>\n."
	}
	zzParseTotal(text)
	rt.Reach("end")
}

// ZZ_C06_deep: d nested lists around one variable (or one value): parsing terminates (the
// engine's instruction budget, natively a watchdog) and returns the message.
func ZZ_C06_deep() {
	d, leaf := rt.Param("d"), rt.Param("leaf")
	text := "S1F1 W\n"
	for i := 0; i < d; i++ {
		text += "<L "
	}
	text += []string{"x", "<U1 1>", "x ...", "<A[1..2] s> <B vb>"}[leaf]
	for i := 0; i < d; i++ {
		text += ">"
	}
	text += "\n."
	msgs := zzParseTotal(text)
	rt.Assert(len(msgs) == 1, "deep:parsed")
	rt.Reach("end")
}
