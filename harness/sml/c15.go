//go:build verif

package sml

import (
	"fmt"
	"math"

	"github.com/wolimst/lib-secs2-hsms-go/pkg/ast"
	rt "github.com/wolimst/lib-secs2-hsms-go/pkg/zzverifrt"
)

// zzDecl draws a size declaration of the given form (0 [n], 1 [a..b], 2 [a..], 3 [..b])
// with ka/kb symbolic decimal digits, optionally with blanks inside the brackets, and
// returns its text with the mathematical bounds (hasHi=false: no upper bound).
func zzDecl(form, ka, kb, sp int) (text string, lo, hi uint64, loHuge, hiHuge, hasHi bool) {
	pad := ""
	if sp == 1 {
		pad = " "
	}
	if sp == 2 {
		// any one of the white-space bytes a declaration may contain (blank, tab, either line-end byte)
		c := rt.Byte("padws")
		rt.Assume(rt.Or(rt.Or(c == ' ', c == '\t'), rt.Or(c == '\n', c == '\r')))
		pad = string([]byte{c})
	}
	var a, b string
	if rt.ParamOr("zeros", 0) > 0 {
		// 18..20 zeros in front of the symbolic digits: the value is the small number
		defer func() {
			zz := "00000000000000000000"[:17+rt.Param("zeros")]
			switch form {
			case 0:
				text = "[" + pad + zz + a + pad + "]"
			case 1:
				text = "[" + pad + zz + a + pad + ".." + pad + zz + b + pad + "]"
			case 2:
				text = "[" + pad + zz + a + pad + ".." + pad + "]"
			case 3:
				text = "[" + pad + ".." + pad + zz + b + pad + "]"
			}
		}()
	}
	if rt.Param("nines") > 0 {
		// 19 concrete nines in front of the symbolic digits: every such number is >= 10^19*9 and
		// with one more digit exceeds 2^64, i.e. it overflows int (the parser's clamp is exercised)
		defer func() {
			nn := "9999999999999999999"
			text = ""
			switch form {
			case 0:
				text = "[" + pad + nn + a + pad + "]"
				loHuge, hiHuge = true, true
			case 1:
				text = "[" + pad + nn + a + pad + ".." + pad + nn + b + pad + "]"
				loHuge, hiHuge = true, true
			case 2:
				text = "[" + pad + nn + a + pad + ".." + pad + "]"
				loHuge = true
			case 3:
				text = "[" + pad + ".." + pad + nn + b + pad + "]"
				hiHuge = true
			}
		}()
	}
	switch form {
	case 0:
		a, lo, loHuge = zzDigits("a", ka, 10)
		hi, hiHuge, hasHi = lo, loHuge, true
		text = "[" + pad + a + pad + "]"
	case 1:
		a, lo, loHuge = zzDigits("a", ka, 10)
		b, hi, hiHuge = zzDigits("b", kb, 10)
		hasHi = true
		text = "[" + pad + a + pad + ".." + pad + b + pad + "]"
	case 2:
		a, lo, loHuge = zzDigits("a", ka, 10)
		text = "[" + pad + a + pad + ".." + pad + "]"
	case 3:
		b, hi, hiHuge = zzDigits("b", kb, 10)
		hasHi = true
		text = "[" + pad + ".." + pad + b + pad + "]"
	}
	return
}

// zzLiteralOfCount writes c elements of the item type (characters for A, children for L).
func zzLiteralOfCount(typ, c int) string {
	s := ""
	for i := 0; i < c; i++ {
		if typ != zzA && i == c-1-rt.ParamOr("varpos", -5) {
			// one element is a variable (a list-valued one for L): it counts like any other element
			s += " vx"
			continue
		}
		switch typ {
		case zzL:
			// children with (satisfied) declarations of their own
			if i%2 == 0 {
				s += " <U1[1] 1>"
			} else {
				s += " <L[0..1] <A [ 1 .. 2 ] \"x\">>"
			}
		case zzA:
			if i == 0 {
				s += " \""
			}
			s += "x"
			if i == c-1 {
				s += "\""
			}
		case zzBOOL:
			s += " T"
		case zzF4, zzF8:
			s += " 1.5"
		default:
			s += " 1"
		}
	}
	return s
}

// ZZ_C15_literal: a literal item with a size declaration is accepted iff its element count
// lies within the declared bounds; otherwise exactly one error - the size error at the
// position of the declaration - and no message.
func ZZ_C15_literal() {
	typ, form, c := rt.Param("typ"), rt.Param("form"), rt.Param("c")
	decl, lo, hi, loHuge, hiHuge, hasHi := zzDecl(form, rt.Param("ka"), rt.Param("kb"), rt.Param("sp"))
	head := "<" + zzTypes[typ]
	text := "S1F1\n" + head + decl + zzLiteralOfCount(typ, c) + ">\n."
	cu := uint64(c)
	within := rt.And(rt.And(!loHuge, lo <= cu), rt.Or(!hasHi, rt.Or(hiHuge, cu <= hi)))
	msgs, errs, _ := Parse(text)
	if within {
		rt.Assert(len(errs) == 0, "size-within:no-error")
		rt.Assert(len(msgs) == 1, "size-within:one-message")
		rt.Reach("accepted")
	} else {
		rt.Assert(len(msgs) == 0, "size-outside:no-message")
		rt.Assert(len(errs) == 1, "size-outside:exactly-one-error")
		if len(errs) == 1 {
			want := fmt.Sprintf("Ln 2, Col %d: data item size overflow, got size of %d", len(head)+1, c)
			rt.Assert(rt.StrEq(errs[0], want), "size-outside:error-text-and-position")
		}
		rt.Reach("rejected")
	}
	rt.Reach("end")
}

// ZZ_C15_asciivar: <A[decl] name> keeps its bounds in the template, prints them back, and
// enforces them when the variable is filled with a string of length c.
func ZZ_C15_asciivar() {
	form, c := rt.Param("form"), rt.Param("c")
	decl, lo, hi, loHuge, hiHuge, hasHi := zzDecl(form, rt.Param("ka"), rt.Param("kb"), rt.Param("sp"))
	rt.Assume(rt.And(!loHuge, !hiHuge))
	rt.Assume(rt.And(lo <= math.MaxInt64, hi <= math.MaxInt64))
	if hasHi {
		rt.Assume(lo <= hi)
	}
	text := "S1F1\n<A" + decl + " name>\n."
	m := zzOne(text, "ascii-variable")
	vars := m.Variables()
	rt.Assert(len(vars) == 1 && vars[0] == "name", "ascii-variable:listed")
	// printed template re-parses to the same template
	m2 := zzOne(m.String(), "ascii-variable-reparse")
	rt.Assert(rt.StrEq(m2.String(), m.String()), "ascii-variable:print-fixed-point")
	// the bounds are enforced on fill
	fill := ""
	for i := 0; i < c; i++ {
		fill += "y"
	}
	cu := uint64(c)
	within := rt.And(lo <= cu, rt.Or(!hasHi, cu <= hi))
	var filled *ast.DataMessage
	p := rt.Try(func() { filled = m.FillVariables(map[string]interface{}{"name": fill}) })
	rt.Assert(p == !within, "ascii-variable:fill-accepted-iff-length-within-bounds")
	p2 := rt.Try(func() { m2.FillVariables(map[string]interface{}{"name": fill}) })
	rt.Assert(p2 == !within, "ascii-variable:reparsed-template-enforces-same-bounds")
	if !p {
		rt.Assert(len(filled.Variables()) == 0, "ascii-variable:filled")
	}
	rt.Reach("end")
}

// ZZ_C15_direct: NewASCIINodeVariable(name, lo, hi) with arbitrary ints: constructible iff
// lo >= 0, hi >= -1 and (hi == -1 or lo <= hi); FillInStringLength reports them; a fill of
// length c is accepted iff lo <= c and (hi == -1 or c <= hi).
func ZZ_C15_direct() {
	c := rt.Param("c")
	lo, hi := rt.Int("lo"), rt.Int("hi")
	var n ast.ItemNode
	p := rt.Try(func() { n = ast.NewASCIINodeVariable("v", lo, hi) })
	valid := rt.And(rt.And(lo >= 0, hi >= -1), rt.Or(hi == -1, lo <= hi))
	rt.Assert(p == !valid, "direct:constructible-iff-bounds-valid")
	if p {
		rt.Reach("end")
		return
	}
	gl, gh := n.(*ast.ASCIINode).FillInStringLength()
	rt.Assert(rt.And(gl == lo, gh == hi), "direct:bounds-kept")
	fill := ""
	for i := 0; i < c; i++ {
		fill += "y"
	}
	pf := rt.Try(func() { n.FillVariables(map[string]interface{}{"v": fill}) })
	within := rt.And(lo <= c, rt.Or(hi == -1, c <= hi))
	rt.Assert(pf == !within, "direct:fill-accepted-iff-within")
	rt.Reach("end")
}

// ZZ_C15_ellipsis: ASCII variables keep their bounds when an ellipsis expansion renames or
// repeats them (and when they merely sit next to the expanded list).
func ZZ_C15_ellipsis() {
	lo := rt.IntRange("lo", 0, 6)
	hi := -1
	if rt.Choice("hisel", 2) == 1 {
		hi = rt.IntRange("hi", 0, 6)
		rt.Assume(lo <= hi)
	}
	n := rt.Choice("n", 3)
	tmpl := ast.NewListNode(ast.NewListNode(ast.NewASCIINodeVariable("r", lo, hi), "..."), ast.NewASCIINodeVariable("sib", lo, hi))
	got := tmpl.FillVariables(map[string]interface{}{"...": n})
	names := []string{"r", "sib"}
	if n > 0 {
		names = []string{"r[0]", "sib"}
		if n == 2 {
			names = []string{"r[0]", "r[1]", "sib"}
		} else {
			names = []string{"r[0]", "r[1]", "sib"}[:0]
			names = append(names, "r[0]", "r[1]", "sib")
		}
	}
	if n == 1 {
		names = []string{"r[0]", "r[1]", "sib"}
	}
	if n == 2 {
		names = []string{"r[0]", "r[1]", "r[2]", "sib"}
	}
	rt.Assert(rt.StrsEq(got.Variables(), names), "ellipsis:names")
	c := rt.Param("c")
	fill := ""
	for i := 0; i < c; i++ {
		fill += "y"
	}
	within := rt.And(lo <= c, rt.Or(hi == -1, c <= hi))
	for _, nm := range names {
		p := rt.Try(func() { got.FillVariables(map[string]interface{}{nm: fill}) })
		rt.Assert(p == !within, "ellipsis:renamed-variable-keeps-bounds")
	}
	rt.Reach("end")
}
