//go:build verif

package sml

import (
	"github.com/wolimst/lib-secs2-hsms-go/pkg/ast"
	"github.com/wolimst/lib-secs2-hsms-go/pkg/parser/hsms"
	rt "github.com/wolimst/lib-secs2-hsms-go/pkg/zzverifrt"
)

// zzSharedObjects builds the objects that goroutines would share: a template message with
// variables of every kind and an ellipsis, a complete message, and their item trees.
func zzSharedObjects() (tmpl, full *ast.DataMessage) {
	tmpl, full, _ = zzSharedObjects3()
	return
}

// zzBare are objects that were never put into a list or observed after their construction:
// scalar items with variables on their own, and a template message around one.
type zzBare struct {
	items []ast.ItemNode
	msg   *ast.DataMessage
}

func zzSharedObjects3() (tmpl, full *ast.DataMessage, bare *zzBare) {
	tmpl, full = zzSharedObjects0()
	c := int16(rt.Int8("c"))
	bare = &zzBare{items: []ast.ItemNode{
		ast.NewIntNode(2, c, "p", "q"), ast.NewUintNode(1, "p", 3), ast.NewFloatNode(8, "p", 2.5), ast.NewBinaryNode("p", 1, "q"),
		ast.NewBooleanNode(true, "p"), ast.NewASCIINodeVariable("r", 0, -1), ast.NewListNode(ast.NewIntNode(1, 1), "p", "..."),
	}}
	bare.msg = ast.NewDataMessage("B", 6, 12, 0, "H<-E", ast.NewBinaryNode("ACKC6"))
	return
}

func zzSharedObjects0() (tmpl, full *ast.DataMessage) {
	c := int16(rt.Int8("c"))
	s := rt.String("s", 2)
	rt.Assume(rt.And(s[0] < 0x80, s[1] < 0x80))
	item := ast.NewListNode(
		ast.NewIntNode(2, c, "va"),
		ast.NewASCIINodeVariable("vs", 0, 3),
		"lv",
		ast.NewListNode(ast.NewBooleanNode("vt", true), ast.NewBinaryNode(7, "vb"), ast.NewFloatNode(4, 1.5, "vf"), ast.NewUintNode(1, "vu")),
		"...",
		ast.NewASCIINode(s),
	)
	tmpl = ast.NewDataMessage("T", 1, 1, 2, "H->E", item)
	fullItem := ast.NewListNode(ast.NewIntNode(2, c, 5), ast.NewASCIINode(s), ast.NewListNode(ast.NewBooleanNode(false, true), ast.NewBinaryNode(7, 8), ast.NewFloatNode(4, 1.5, 2.5), ast.NewUintNode(1, 9)))
	full = ast.NewHSMSDataMessage("F", 1, 1, 1, "H->E", fullItem, int(rt.Uint16("sid")), rt.Bytes("sys", 4))
	return
}

// zzOp runs one of the operations named in the property and returns its observable result.
func zzOp(op int, tmpl, full *ast.DataMessage) (string, []byte, []string) {
	switch op {
	case 0:
		return tmpl.String(), nil, nil
	case 1:
		return full.String(), full.ToBytes(), nil
	case 2:
		return "", tmpl.ToBytes(), tmpl.Variables()
	case 3:
		r := tmpl.FillVariables(map[string]interface{}{"va": int16(3), "vs": "ab", "vt": false, "vu": uint8(4)})
		return r.String(), r.ToBytes(), r.Variables()
	case 4:
		r := tmpl.FillVariables(map[string]interface{}{"...": 2, "lv": ast.NewBinaryNode(1), "vf": 2.5})
		return r.String(), r.ToBytes(), r.Variables()
	case 5:
		r := tmpl.SetWaitBit(true).SetSessionIDAndSystemBytes(9, []byte{9, 9, 9, 9})
		return r.Header(), r.ToBytes(), r.Variables()
	case 6:
		m, ok := hsms.Parse(full.ToBytes())
		rt.Assert(ok, "ops:decode-ok")
		return m.(*ast.DataMessage).String(), m.ToBytes(), nil
	case 7:
		msgs, errs, warns := Parse(tmpl.String())
		rt.Assert(len(msgs) == 1, "ops:parse-ok")
		out := ""
		for _, m := range msgs {
			out += m.String()
		}
		return out, nil, append(errs, warns...)
	case 8:
		msgs, errs, warns := Parse("S1F1 W\n<L <U1 1 x> <U1 x>\n.")
		return "", nil, append(append(errs, warns...), rt.N("n", len(msgs)))
	case 9:
		cm := ast.NewHSMSMessageSelectRsp(ast.NewHSMSMessageSelectReq(7, []byte{1, 2, 3, 4}), 0)
		m, ok := hsms.Parse(cm.ToBytes())
		rt.Assert(ok, "ops:decode-control-ok")
		return m.Type(), m.ToBytes(), nil
	case 10: // rejected inputs: everything the decoder returns, not only ok
		out := ""
		good := full.ToBytes()
		for _, in := range [][]byte{good[:len(good)-1], {0, 0, 0, 10, 0, 1, 0, 0, 9, 0, 0, 0, 0, 1}, {0, 0, 0, 10, 0, 1, 0, 0, 0, 8, 0, 0, 0, 1}, {0, 0, 0, 11, 0xff, 0xff, 0, 0, 0, 5, 0, 0, 0, 1, 0}, {1, 2, 3}} {
			m, ok := hsms.Parse(in)
			out += rt.N("ok", rt.Ite(ok, 1, 0)) + rt.N("nil", rt.Ite(m == nil, 1, 0)) + " "
		}
		return out, nil, nil
	case 12: // a deeply nested message (single-element lists) through the decoder
		var in []byte
		depth := 1500
		if rt.IsSymbolic() {
			depth = 120 // the engine's certificate does not depend on the depth; the native goroutines decode 1500 levels
		}
		for i := 0; i < depth; i++ {
			in = append(in, 0x01, 0x01)
		}
		in = append(in, 0x01, 0x00)
		n := len(in) + 10
		in = append([]byte{byte(n >> 24), byte(n >> 16), byte(n >> 8), byte(n), 0, 1, 0x81, 1, 0, 0, 0, 0, 0, 1}, in...)
		m, ok := hsms.Parse(in)
		rt.Assert(ok, "ops:decode-deep-ok")
		if !ok {
			return "rejected", nil, nil
		}
		return "", m.ToBytes(), nil
	case 13: // SML texts whose diagnostics come out of the parser's recovery from a refusing constructor
		out := []string{}
		for _, t := range []string{"S1F1 W\n<A[5..2] x>\n.", "S2F1\n<L <A \"x\"> ... ...>\n.", "S3F1 <L x <U1 x>>."} {
			msgs, errs, warns := Parse(t)
			out = append(append(append(out, rt.N("n", len(msgs))), errs...), warns...)
		}
		return "", nil, out
	case 14: // a long rejected text: the parser gives up at the second token, 20 KiB of tokens follow
		t := "S1F1 W\n<Q 1>\n<L"
		for i := 0; i < 2600; i++ {
			t += " <U1 7>"
		}
		msgs, errs, warns := Parse(t + ">\n.")
		return rt.N("n", len(msgs)), nil, append(errs, warns...)
	case 11: // rejected SML text
		msgs, errs, warns := Parse("S1F1 W <L <U1 300> <A 'x>\n.\nS2F1 <Q>.")
		return rt.N("n", len(msgs)), nil, append(errs, warns...)
	}
	return "", nil, nil
}

// zzBareOp observes the bare objects: list variables, print, encode, size, derive.
func zzBareOp(b *zzBare) (string, []byte, []string) {
	out, vars := "", []string{}
	var bytes []byte
	for _, it := range b.items {
		vars = append(vars, it.Variables()...)
		out += it.(interface{ String() string }).String()
		bytes = append(bytes, it.ToBytes()...)
		bytes = append(bytes, byte(it.Size()))
	}
	vars = append(vars, b.msg.Variables()...)
	bytes = append(bytes, b.msg.ToBytes()...)
	out += b.msg.String()
	l := ast.NewListNode(b.items[0], b.items[5])
	out += l.(interface{ String() string }).String()
	return out, bytes, vars
}

// ZZ_C17_bare: the write-set certificate for objects nobody has looked at yet (a value that
// an observer computes on first use and keeps in the object would be stored here), and natively
// 8 goroutines whose first observation of fresh objects overlaps.
func ZZ_C17_bare() {
	_, _, bare := zzSharedObjects3()
	rt.MapOrder(rt.Param("order"))
	roots := []interface{}{bare.msg}
	for _, it := range bare.items {
		roots = append(roots, it)
	}
	rt.Epoch(roots...)
	s0, b0, v0 := zzBareOp(bare)
	rt.Assert(rt.EpochEnd() == 0, "no-store-into-shared-memory")
	rt.MapOrder(0)
	for round := 0; round < rt.Iterations(20); round++ {
		_, _, fresh := zzSharedObjects3()
		rt.Concurrently(8, func() {
			s, b, v := zzBareOp(fresh)
			rt.Assert(rt.StrEq(s, s0), "concurrent-call-returns-its-own-result:string")
			rt.Assert(rt.BytesEq(b, b0), "concurrent-call-returns-its-own-result:bytes")
			rt.Assert(rt.StrsEq(v, v0), "concurrent-call-returns-its-own-result:list")
		})
	}
	rt.Reach("end")
}

// ZZ_C17_history: a call returns what it returns alone whatever was called before it: operation
// b first (nothing has run yet), then any operation a, then b again.
func ZZ_C17_history() {
	b := rt.Param("b")
	txt := rt.String("s", 2)
	rt.Assume(rt.And(txt[0] == 'a', txt[1] == 'b')) // the text content is not what is explored here
	tmpl, full := zzSharedObjects()
	s0, b0, v0 := zzOp(b, tmpl, full)
	a := rt.Choice("a", 15)
	// natively the pair is repeated (what a recycled object carries over depends on the runtime)
	for r := 0; r < rt.Iterations(16); r++ {
		zzOp(a, tmpl, full)
		s1, b1, v1 := zzOp(b, tmpl, full)
		rt.Assert(rt.StrEq(s1, s0), "history:same-result-after-other-calls:string")
		rt.Assert(rt.BytesEq(b1, b0), "history:same-result-after-other-calls:bytes")
		rt.Assert(rt.StrsEq(v1, v0), "history:same-result-after-other-calls:list")
	}
	rt.Reach("end")
}

// ZZ_C17_noninterference: a sufficient condition for safety under any schedule: each
// operation (1) stores only into objects it allocated itself - never into a pre-existing
// item, message, argument or package-level variable (writes under a held mutex or inside
// sync.Once.Do excepted) - and (2) returns the same result whatever the map iteration
// order.  Then concurrent calls only read shared memory: no data race, and every call
// returns what it returns alone.
func ZZ_C17_noninterference() {
	op := rt.Param("op")
	tmpl, full := zzSharedObjects()
	rt.MapOrder(0)
	rt.Epoch(tmpl, full)
	s0, b0, v0 := zzOp(op, tmpl, full)
	shared := rt.EpochEnd()
	rt.Assert(shared == 0, "no-store-into-shared-memory")
	for order := 1; order <= 3; order++ {
		rt.MapOrder(order)
		rt.Epoch(tmpl, full)
		s, b, v := zzOp(op, tmpl, full)
		rt.Assert(rt.EpochEnd() == 0, "no-store-into-shared-memory")
		rt.Assert(rt.StrEq(s, s0), "result-independent-of-map-order:string")
		rt.Assert(rt.BytesEq(b, b0), "result-independent-of-map-order:bytes")
		rt.Assert(rt.StrsEq(v, v0), "result-independent-of-map-order:list")
	}
	rt.MapOrder(0)
	// Natively (replay under the race detector) the operation runs in 8 goroutines at once on
	// the shared objects and every call must return what it returned alone; the engine runs
	// this block once.
	rt.Concurrently(8, func() {
		for it := 0; it < rt.Iterations(25); it++ {
			s, b, v := zzOp(op, tmpl, full)
			rt.Assert(rt.StrEq(s, s0), "concurrent-call-returns-its-own-result:string")
			rt.Assert(rt.BytesEq(b, b0), "concurrent-call-returns-its-own-result:bytes")
			rt.Assert(rt.StrsEq(v, v0), "concurrent-call-returns-its-own-result:list")
		}
	})
	rt.Reach("end")
}

// ZZ_C17_results: results handed to one caller are not shared with the next call: after a
// caller edits the slices it got back, the same call returns the original result again.
func ZZ_C17_results() {
	which := rt.Param("which")
	tmpl, full := zzSharedObjects()
	switch which {
	case 0:
		text := tmpl.String() + "\nS1F2\n."
		m1, e1, w1 := Parse(text)
		rt.Assert(len(m1) == 2 && len(e1) == 0, "results:parse-ok")
		s0, s1 := m1[0].String(), m1[1].String()
		nw := len(w1)
		m1[0], m1[1] = m1[1], nil
		for i := range w1 {
			w1[i] = "edited"
		}
		m2, _, w2 := Parse(text)
		rt.Assert(len(m2) == 2, "results:second-parse-message-count")
		rt.Assert(m2[0] != nil && m2[1] != nil, "results:second-parse-not-aliased")
		if m2[0] != nil && m2[1] != nil {
			rt.Assert(rt.StrEq(m2[0].String(), s0), "results:second-parse-first-message")
			rt.Assert(rt.StrEq(m2[1].String(), s1), "results:second-parse-second-message")
		}
		rt.Assert(len(w2) == nw, "results:second-parse-warning-count")
		for i := range w2 {
			rt.Assert(w2[i] != "edited", "results:second-parse-warnings-not-aliased")
		}
	case 1:
		in := full.ToBytes()
		a, ok := hsms.Parse(in)
		rt.Assert(ok, "results:decode-ok")
		ab := a.ToBytes()
		ab[5] ^= 0xff
		b, ok2 := hsms.Parse(in)
		rt.Assert(ok2, "results:second-decode-ok")
		rt.Assert(rt.BytesEq(b.ToBytes(), in), "results:second-decode-unaffected")
	case 3:
		// a fill table shared by several calls (and goroutines) is only read
		vals := map[string]interface{}{"...": 1, "va": int16(3), "vt": true, "lv": ast.NewBinaryNode(2)}
		rt.Epoch(tmpl, full, vals)
		r1 := tmpl.FillVariables(vals)
		rt.Assert(rt.EpochEnd() == 0, "no-store-into-shared-memory")
		rt.Assert(len(vals) == 4, "results:fill-table-not-consumed")
		r2 := tmpl.FillVariables(vals)
		rt.Assert(rt.StrEq(r2.String(), r1.String()), "results:second-fill-with-the-same-table")
		rt.Assert(rt.StrsEq(r2.Variables(), r1.Variables()), "results:second-fill-variables")
		rt.Concurrently(8, func() {
			for it := 0; it < rt.Iterations(25); it++ {
				r := tmpl.FillVariables(vals)
				rt.Assert(rt.StrEq(r.String(), r1.String()), "concurrent-call-returns-its-own-result:string")
			}
		})
	case 2:
		v1 := tmpl.Variables()
		want := append([]string{}, v1...)
		for i := range v1 {
			v1[i] = "x"
		}
		rt.Assert(rt.StrsEq(tmpl.Variables(), want), "results:variables-unaffected")
		b1 := full.ToBytes()
		wantB := append([]byte{}, b1...)
		b1[6] ^= 0xff
		rt.Assert(rt.BytesEq(full.ToBytes(), wantB), "results:bytes-unaffected")
	}
	rt.Reach("end")
}
