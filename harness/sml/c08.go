//go:build verif

package sml

import (
	"unicode/utf8"

	"github.com/wolimst/lib-secs2-hsms-go/pkg/ast"
	rt "github.com/wolimst/lib-secs2-hsms-go/pkg/zzverifrt"
)

// zzSeq is a token sequence with its base layout: sep[i] stands before tok[i] and
// sep[len(tok)] behind the last token; opt[i] marks boundaries where the grammar needs no
// white space (self-delimiting tokens); kw[i] marks tokens whose letters are case-free.
type zzSeq struct {
	tok    []string
	sep    []string
	kw     []bool
	inside []bool // inside[i]: boundary i lies inside a size declaration
}

// zzMkSeq builds a sequence from a compact spec: tokens separated by '|' (boundary needs
// white space, base " "), '~' (optional white space, base "") or '^' (inside a size
// declaration "[ .. ]": the lexer reads the declaration as ONE token and tolerates white
// space in it, but a comment there is inside a token, not between tokens, and is not part
// of the claim); a leading '!' marks a keyword token (letter case is free).
func zzMkSeq(spec string) *zzSeq {
	s := &zzSeq{sep: []string{""}, inside: []bool{false}}
	cur, kw := "", false
	flush := func(next string) {
		s.tok = append(s.tok, cur)
		s.kw = append(s.kw, kw)
		s.sep = append(s.sep, next)
		s.inside = append(s.inside, false)
		cur, kw = "", false
	}
	for i := 0; i < len(spec); i++ {
		switch c := spec[i]; {
		case c == '|':
			flush(" ")
		case c == '~':
			flush("")
		case c == '^':
			flush("")
			s.inside[len(s.inside)-1] = true
		case c == '!' && cur == "":
			kw = true
		default:
			cur += string(c)
		}
	}
	flush("")
	return s
}

var zzSeqSpecs = []string{
	// valid, no diagnostics
	`!S1F1|!W|!H->E|Name|<~!L~[^2^]~<~!A|"x y"~>~<~!U2|1|!0x1F~>~>~.`,
	// missing direction: one warning
	`!S6F11|![W]|<~!L~<~!B|!0b1|v~>|...|<~!BOOLEAN|!T|!f~>~>~.`,
	// two messages, floats with exponent
	`!S1F2|!H<->E~<~!F4|!1.5e3|-2.~>~.|!S2F4|!H<-E~<~!I1|-5|x~>~.`,
	// range error
	`!S1F1|!H->E|<~!U1|300~>~.`,
	// duplicate variable error
	`!S1F1|!H->E|<~!L~<~!A|x~>~<~!A|x~>~>~.`,
	// invalid item type (error), missing direction (warning)
	`!S1F1|!W|<~Q|1~>~.`,
	// a quoted string containing the comment delimiter and a keyword look-alike
	`!S1F1|!H->E|Nm|<~!L~<~!A|"a // b"|!0x2F~>~<~!A|"<L T>"~>~>~.`,
	// size declarations with optional white space inside the brackets, diagnostics behind them
	`!S1F1|!H->E|<~!L~[^1^..^3^]~<~!A~[^2^..^]|"abc"~>~<~!U1~[^1^]|300~>~>~.|!S1F2|<~!B|400~>~.`,
	// one-character tokens: message names of one character, one-digit numbers, one-letter variables
	`!S1F1|!W|!H->E|N|<~!L~<~!U1|7|v~>~<~!A|"q"~>~>~.|!S3F5|!H<-E|m|<~!B|1~>~.|!S9F9|!W|Z|.`,
	// rejected texts whose error lies between the end of the message text and the terminator:
	// terminator missing before the next header, a stray character, a second item
	`!S1F1|!H->E~<~!A|"x"~>|s1f2|!W~.`,
	`!S1F1|!H->E~<~!A|"x"~>|*|.`,
	`!S1F1~<~!L~<~!U1|1~>|x~>|<~!B|2~>~.`,
	// a '.' glued to the message name belongs to the name: whatever follows, the verdict is the same
	`!S9F9|!W|Z.`,
	`!S1F13|!W|!H->E|Establish.|S1F14|.`,
}

func zzJoin(s *zzSeq, sep []string, tok []string) string {
	out := ""
	for i, t := range tok {
		out += sep[i] + t
	}
	return out + sep[len(tok)]
}

// zzPositions gives line and column (as the lexer defines them: 1 + LFs before, 1 + characters
// since the last LF) of every token start and of the end of input.
func zzPositions(sep []string, tok []string) (lines, cols []int) {
	line, col := 1, 1
	adv := func(x string) {
		// columns count characters as the lexer decodes them (an invalid byte is one character)
		for len(x) > 0 {
			r, size := utf8.DecodeRuneInString(x)
			x = x[size:]
			nl := r == '\n'
			line += rt.Ite(nl, 1, 0)
			col = rt.Ite(nl, 1, col+1)
		}
	}
	for i, t := range tok {
		adv(sep[i])
		lines, cols = append(lines, line), append(cols, col)
		adv(t)
	}
	adv(sep[len(tok)])
	lines, cols = append(lines, line), append(cols, col)
	return
}

type zzDiag struct {
	text      string
	line, col int
}

func zzDiags(list []string, tag string) []zzDiag {
	var out []zzDiag
	for _, e := range list {
		l, c, ok := rt.ParseLnCol(e)
		rt.Assert(ok, tag+":format")
		out = append(out, zzDiag{rt.DiagText(e), l, c})
	}
	return out
}

// zzCompareLayouts parses the base and the variant text and asserts identical messages
// and identical diagnostics moved exactly with the tokens they point at.
func zzCompareLayouts(s *zzSeq, vsep, vtok []string, commentBytes int) {
	base, variant := zzJoin(s, s.sep, s.tok), zzJoin(s, vsep, vtok)
	bm, be, bw := Parse(base)
	vm, ve, vw := Parse(variant)
	rt.Assert(len(vm) == len(bm), "layout:same-message-count")
	for i := range bm {
		if i < len(vm) {
			zzSameMessage(vm[i], bm[i], "layout")
		}
	}
	bl, bc := zzPositions(s.sep, s.tok)
	vl, vc := zzPositions(vsep, vtok)
	for k, pair := range [][2][]string{{be, ve}, {bw, vw}} {
		tag := []string{"layout-errors", "layout-warnings"}[k]
		bd, vd := zzDiags(pair[0], tag), zzDiags(pair[1], tag)
		rt.Assert(len(bd) == len(vd), tag+":same-count")
		for i := range bd {
			if i >= len(vd) {
				break
			}
			rt.Assert(rt.StrEq(vd[i].text, bd[i].text), tag+":same-text")
			// the token (or end of input) the base diagnostic points at
			at := -1
			for t := range bl {
				if bl[t] == bd[i].line && bc[t] == bd[i].col {
					at = t
					break
				}
			}
			rt.Assert(at >= 0, tag+":base-position-is-a-token-start")
			if at >= 0 {
				rt.Assert(vd[i].line == vl[at], tag+":line-moves-with-token")
				rt.Assert(vd[i].col == vc[at], tag+":column-moves-with-token")
			}
		}
	}
	_ = ast.MAX_BYTE_SIZE
}

// zzWS draws n white-space bytes (SP, TAB, LF, CR).
func zzWS(name string, n int) string {
	w := rt.String(name, n)
	for i := 0; i < n; i++ {
		c := w[i]
		rt.Assume(rt.Or(rt.Or(c == ' ', c == '\t'), rt.Or(c == '\n', c == '\r')))
	}
	return w
}

// ZZ_C08_space: the separator at boundary j is replaced by n arbitrary white-space bytes
// (also inserted where white space is optional; n=0 removes optional white space).
func ZZ_C08_space() {
	s := zzMkSeq(zzSeqSpecs[rt.Param("seq")])
	j, n := rt.Param("j"), rt.Param("n")
	if j > len(s.tok) || (n == 0 && s.sep[j] != "") && j != 0 && j != len(s.tok) {
		rt.Reach("end")
		return
	}
	vsep := append([]string{}, s.sep...)
	vsep[j] = zzWS("w", n)
	zzCompareLayouts(s, vsep, s.tok, 0)
	rt.Reach("end")
}

// ZZ_C08_comment: a // comment with k arbitrary bytes (no LF) is placed at boundary j,
// followed by LF, CR LF or (at the end of the text) nothing; with or without a blank before.
func ZZ_C08_comment() {
	s := zzMkSeq(zzSeqSpecs[rt.Param("seq")])
	j, k, end, blank := rt.Param("j"), rt.Param("k"), rt.Param("end"), rt.Param("blank")
	if j > len(s.tok) || s.inside[j] {
		rt.Reach("end")
		return
	}
	body := rt.String("c", k)
	for i := 0; i < k; i++ {
		rt.Assume(body[i] != '\n')
	}
	c := "//" + body
	if blank == 1 {
		c = " " + c
	}
	switch end {
	case 0:
		c += "\n"
	case 1:
		c += "\r\n"
	case 2:
		if j != len(s.tok) {
			rt.Reach("end")
			return
		}
	}
	vsep := append([]string{}, s.sep...)
	vsep[j] = c
	zzCompareLayouts(s, vsep, s.tok, k)
	rt.Reach("end")
}

// ZZ_C08_case: every letter of keyword token j takes either case (one symbolic bit each).
func ZZ_C08_case() {
	s := zzMkSeq(zzSeqSpecs[rt.Param("seq")])
	j := rt.Param("j")
	if j >= len(s.tok) || !s.kw[j] {
		rt.Reach("end")
		return
	}
	t := s.tok[j]
	b := make([]byte, len(t))
	for i := 0; i < len(t); i++ {
		c := t[i]
		b[i] = c
		lower, upper := c, c
		if c >= 'a' && c <= 'z' {
			upper = c - 32
		} else if c >= 'A' && c <= 'Z' {
			lower = c + 32
		} else {
			continue
		}
		b[i] = byte(rt.Ite(rt.Bool(rt.N("up", i)), int(upper), int(lower)))
	}
	vtok := append([]string{}, s.tok...)
	vtok[j] = string(b)
	zzCompareLayouts(s, s.sep, vtok, 0)
	rt.Reach("end")
}
