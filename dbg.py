#!/usr/bin/env python3
"""Development helper: run ad-hoc jobs. usage: dbg.py <pkgshort> <harness> k=v ... [--prof] [--max N] [--smt]"""
import sys, os, json, subprocess, importlib.util, importlib.machinery
loader = importlib.machinery.SourceFileLoader("check", "/verif/check")
spec = importlib.util.spec_from_loader("check", loader); chk = importlib.util.module_from_spec(spec); loader.exec_module(chk)
sc = "/var/tmp/vdbg"; os.makedirs(sc, exist_ok=True)
eng, nat = chk.make_overlays(sc)
pk, h = sys.argv[1], sys.argv[2]
params, extra, flags = {}, {}, []
for a in sys.argv[3:]:
    if a == "--prof": flags += ["-cpuprofile", "/tmp/cpu.prof"]
    elif a.startswith("--max="): extra["max_paths"] = int(a[6:])
    elif a.startswith("--fuel="): extra["fuel"] = int(a[7:])
    elif a == "--smt": extra["smt_log"] = "/tmp/smt.log"
    else:
        k, v = a.split("="); params[k] = int(v)
job = dict(pkg=chk.PKGDIR[pk], harness=h, params=params, **extra)
json.dump([job], open(sc + "/j.json", "w"))
chk.build_engine()
subprocess.run([chk.VERIF + "/bin/gosymex", "run", "-repo", chk.REPO, "-overlay", eng, "-jobs", sc + "/j.json", "-out", sc + "/r.json"] + flags, env=chk.GOENV)
r = json.load(open(sc + "/r.json"))["results"][0]
print("ends", r["stats"]["path_ends"], "notes", r["notes"], "err", (r.get("error") or "")[:2000])
for v in (r["violations"] or [])[:6]:
    print("VIOL", v["label"], {k: x for k, x in v["model"].items() if x}, v.get("detail", "")[:300])
seen = set()
for s in r["samples"]:
    if s["end"] != "ok" and s["end"] not in seen:
        seen.add(s["end"]); print("SAMPLE", s["end"], {k: x for k, x in (s.get("assignment") or {}).items() if x}, s.get("observed"))
