#!/usr/bin/env python3
"""Writes seeded/README.md (table of seeded changes and the checks that flag them) from seeded/*/meta.json."""
import json, glob, os, re
base = os.path.dirname(os.path.abspath(__file__))
rows = []
for d in sorted(glob.glob(base + "/seeded/C*")):
    m = json.load(open(d + "/meta.json"))
    name = os.path.basename(d)
    notes = m.get("agent_notes", "")
    # first sentence describing the change k
    k = name[-1]
    what = ""
    mm = re.search(r"(?is)change\s*%s\b[^\n]*\n(.*?)(?:\n#|\n\*\*change|\Z)" % k, notes)
    if mm:
        what = " ".join(mm.group(1).split())[:260]
    own = m.get("own_check", {})
    matrix = m.get("matrix", {})
    flagged = m.get("flagged_by_all") or m.get("flagged_by") or []
    inconc = [c for c, v in (matrix or own).items() if v.get("exit") == 3]
    rows.append((name, m["property"], flagged, inconc, what, m.get("needs", "")))
with open(base + "/seeded/README.md", "w") as f:
    f.write("# Seeded changes\n\nEach directory holds `patch.diff` (applies to /repo HEAD with `git apply`), `demo_test.go` (fails with the change, passes without; "
            "its package directory is in meta.json) and `meta.json` (property, confirmation commands, which checks were run and which flagged it, the sub-agent's notes). "
            "All changes compile and pass the repository's own test suite. They were written by independent sub-agents that saw only the property text.\n\n"
            "| seed | property | flagged by (quick tier unless noted) | inconclusive | change |\n|---|---|---|---|---|\n")
    for name, pid, flagged, inconc, what, needs in rows:
        f.write("| %s | %s | %s | %s | %s |\n" % (name, pid, " ".join(flagged) or "-", " ".join(inconc) or "-", what.replace("|", "/")))
print("seeded/README.md: %d seeds" % len(rows))
