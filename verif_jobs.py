"""Job tables: which harness instances (with which bound parameters) make up the
quick and thorough check of each property."""


def J(pkg, harness, **params):
    extra = {}
    for k in ("fuel", "timeout_s", "max_paths", "query_ms"):
        if k in params:
            extra[k] = params.pop(k)
    d = dict(pkgshort=pkg, harness=harness, params=params)
    d.update(extra)
    return d


def c14_jobs(tier):
    jobs = [J("ast", "ZZ_C14_req", kind=k) for k in range(5)]
    jobs += [J("ast", "ZZ_C14_rsp", rsp=r, req=q) for r in range(3) for q in range(7)]
    jobs += [J("ast", "ZZ_C14_type")]
    jobs += [J("ast", "ZZ_C14_generic", len=n) for n in range(0, 14)]
    return jobs


def c13_jobs(tier):
    jobs = [J("ast", "ZZ_C13_header", typ=t) for t in range(14)]
    jobs += [J("ast", "ZZ_C13_bytelen", typ=t) for t in range(14)]
    return jobs


PROPS = {
    "C13": dict(jobs=c13_jobs, must_reach=["end"],
                level_text="Bounded model checking: the element count is one symbolic 64-bit integer (0 <= n < 2^40), so the limit test and the length header are decided for every size at once, per format.",
                level_note="Trusted: go/ssa, engine, z3. Counts >= 2^40 (no such slice can exist) are outside.",
                bounds={"n": "symbolic, 0 <= n < 2^40", "formats": 14},
                outside=["executing element loops of items above the materialised sizes"]),
    "C14": dict(jobs=c14_jobs,
                level_text="Bounded model checking by symbolic execution of the real constructors, Type() and decoder: loop-free code over 10-byte headers, every field value symbolic, so each assertion is decided for all values at once.",
                level_note="Trusted: go/ssa, the engine's interpreter/simplifier, z3. Precondition len(systemBytes)==4 for the Req constructors.", bounds={"values": "unbounded: session id 16 bit, status/reason/pType/sType 8 bit, 4 system bytes all symbolic"},
                outside=[], assumptions=["len(systemBytes) == 4 for the ...Req constructors (documented precondition)"]),
}

NOT_APPLICABLE = {}
