"""Job tables: which harness instances (with which bound parameters) make up the
quick and thorough check of each property."""


def J(pkg, harness, **params):
    extra = {}
    for k in ("fuel", "timeout_s", "max_paths", "query_ms"):
        if k in params:
            extra[k] = params.pop(k)
    d = dict(pkgshort=pkg, harness=harness, params=params)
    d.update(extra)
    return d


def c14_jobs(tier):
    jobs = [J("ast", "ZZ_C14_req", kind=k) for k in range(5)]
    return jobs


PROPS = {
    "C14": dict(jobs=c14_jobs,
                level_text="Bounded model checking by symbolic execution of the real constructors, Type() and decoder: loop-free code over 10-byte headers, every field value symbolic, so each assertion is decided for all values at once.",
                level_note="Trusted: go/ssa, the engine's interpreter/simplifier, z3. Precondition len(systemBytes)==4 for the Req constructors.", bounds={"values": "unbounded: session id 16 bit, status/reason/pType/sType 8 bit, 4 system bytes all symbolic"},
                outside=[], assumptions=["len(systemBytes) == 4 for the ...Req constructors (documented precondition)"]),
}

NOT_APPLICABLE = {}
