"""Job tables: which harness instances (with which bound parameters) make up the
quick and thorough check of each property."""


def J(pkg, harness, **params):
    extra = {}
    for k in ("fuel", "timeout_s", "max_paths", "query_ms", "heavy"):
        if k in params:
            extra[k] = params.pop(k)
    d = dict(pkgshort=pkg, harness=harness, params=params)
    if "call_depth" in params:
        extra["depth"] = params.pop("call_depth")  # engine call depth budget (default 400)
    d.update(extra)
    return d


def c14_jobs(tier):
    jobs = [J("ast", "ZZ_C14_req", kind=k) for k in range(5)]
    jobs += [J("ast", "ZZ_C14_rsp", rsp=r, req=q) for r in range(3) for q in range(7)]
    jobs += [J("ast", "ZZ_C14_type")]
    jobs += [J("ast", "ZZ_C14_generic", len=n) for n in range(0, 14)]
    jobs += [J("hsms", "ZZ_C14_decode")]
    jobs += [J("hsms", "ZZ_C14_roundtrip", kind=k) for k in range(8)]
    jobs += [J("hsms", "ZZ_C14_foreign", rsp=r) for r in range(3)]
    return jobs


LEAF_KINDS = list(range(1, 14))


def c02_jobs(tier):
    ns = [0, 1, 2] if tier == "quick" else [0, 1, 2, 3, 5]
    jobs = [J("hsms", "ZZ_C02_leaf", kind=k, n=n) for k in LEAF_KINDS for n in ns]
    if tier == "quick":
        jobs += [J("hsms", "ZZ_C02_tree", depth=2, width=2, menu=2, maxn=1)]
    else:
        jobs += [J("hsms", "ZZ_C02_tree", depth=2, width=2, menu=6, maxn=1, timeout_s=7200, **{"force.tk": k, "force.tw": w}) for k in range(6) for w in (0,)]
        jobs += [J("hsms", "ZZ_C02_tree", depth=2, width=2, menu=6, maxn=1, timeout_s=7200, **{"force.tk": 6, "force.tw": w, "force.tc_0k": c}) for w in (1, 2) for c in range(7)]
        jobs += [J("hsms", "ZZ_C02_tree", depth=2, width=2, menu=6, maxn=1, timeout_s=7200, **{"force.tk": 6, "force.tw": 0}),
                 J("hsms", "ZZ_C02_tree", depth=3, width=2, menu=1, maxn=1, timeout_s=7200),
                 J("hsms", "ZZ_C02_tree", depth=1, width=2, menu=13, maxn=2, timeout_s=7200)]
    jobs += [J("hsms", "ZZ_C02_incomplete", which=w) for w in range(5)]
    jobs += [J("ast", "ZZ_C13_header", typ=t) for t in range(14)]  # format byte + shortest length for every size
    W = [1, 1, 1, 1, 8, 1, 2, 4, 8, 4, 8, 1, 2, 4]
    for k in LEAF_KINDS:
        sizes = [255, 256] if W[k] == 1 else [256]
        if tier != "quick":
            sizes += [65535, 65536] if W[k] == 1 else [65536]
        for b in sizes:
            jobs.append(J("hsms", "ZZ_C02_boundary", kind=k, n=(b + W[k] - 1) // W[k], fuel=2_000_000_000, timeout_s=7200))
    # deep chains (an encoder or decoder with its own stack), many empty children (counters that only some exits decrement)
    for d in ((17, 40, 70) if tier == "quick" else (17, 33, 40, 65, 70, 130, 300)):
        jobs.append(J("hsms", "ZZ_C02_chain", d=d, call_depth=3000, fuel=400_000_000))
    for n, kind in ([(600, 0), (600, 1)] if tier == "quick" else [(600, 0), (600, 1), (70000, 0), (1100000, 0)]):
        jobs.append(J("hsms", "ZZ_C02_manylists", n=n, kind=kind, fuel=40_000_000_000, heavy=(1 if n > 500000 else 0), timeout_s=7200))
    for n, parts in [(300, 1), (70000, 1), (16777215, 1), (40000, 3), (9000000, 2)]:  # top byte of the message length = 1; a list whose children add up to more than one item may hold
        jobs.append(J("hsms", "ZZ_C02_bigmessage", n=n, parts=parts, decode=0, heavy=(1 if n > 500000 else 0), fuel=16_000_000_000, timeout_s=7200))
    return jobs


def c01_jobs(tier):
    ns = [0, 1, 2] if tier == "quick" else [0, 1, 2, 3, 6]
    jobs = [J("hsms", "ZZ_C01_leaf", kind=k, n=n) for k in LEAF_KINDS for n in ns]
    # the item header for EVERY size (harness shared with C13): items of exactly 16,777,215 bytes included
    jobs += [J("ast", "ZZ_C13_header", typ=t) for t in range(14)]
    jobs += [J("sml", "ZZ_C01_sml", which=w) for w in range(3)]
    # a message whose list holds two 9 MB items (more bytes than any single item may have) survives the round trip
    jobs.append(J("hsms", "ZZ_C02_bigmessage", n=9000000, parts=2, decode=1, heavy=1, fuel=32_000_000_000, timeout_s=7200))
    jobs.append(J("hsms", "ZZ_C02_bigmessage", n=40000, parts=3, decode=1))
    for d in (17, 40, 70):
        jobs.append(J("hsms", "ZZ_C02_chain", d=d, call_depth=3000, fuel=400_000_000))
    for n, kind in ((600, 0), (600, 1)):
        jobs.append(J("hsms", "ZZ_C02_manylists", n=n, kind=kind, fuel=2_000_000_000, timeout_s=7200))
    if tier != "quick":
        jobs.append(J("hsms", "ZZ_C02_manylists", n=1100000, kind=0, fuel=40_000_000_000, heavy=1, timeout_s=7200))
    if tier == "quick":
        jobs += [J("hsms", "ZZ_C01_tree", depth=2, width=2, menu=2, maxn=1)]
        bsizes = [255, 256, 257]
    else:
        jobs += [J("hsms", "ZZ_C01_tree", depth=2, width=2, menu=6, maxn=1, timeout_s=7200, **{"force.tk": k}) for k in range(6)]
        jobs += [J("hsms", "ZZ_C01_tree", depth=2, width=2, menu=6, maxn=1, timeout_s=7200, **{"force.tk": 6, "force.tw": w, "force.tc_0k": c}) for w in (1, 2) for c in range(7)]
        jobs += [J("hsms", "ZZ_C01_tree", depth=2, width=2, menu=6, maxn=1, timeout_s=7200, **{"force.tk": 6, "force.tw": 0}),
                 J("hsms", "ZZ_C01_tree", depth=3, width=2, menu=1, maxn=1, timeout_s=7200),
                 J("hsms", "ZZ_C01_tree", depth=1, width=2, menu=13, maxn=2, timeout_s=7200)]
        bsizes = [255, 256, 257, 65535, 65536]
    for kind in (0, 1, 3, 11, 12, 6):  # list, binary, ascii, u1, u2, i2
        w = [1, 1, 1, 1, 8, 1, 2, 4, 8, 4, 8, 1, 2, 4][kind]
        for b in bsizes:
            if b % w == 0 or kind in (0,):
                jobs.append(J("hsms", "ZZ_C01_boundary", kind=kind, n=b // w, fuel=400_000_000))
            else:
                jobs.append(J("hsms", "ZZ_C01_boundary", kind=kind, n=(b + w - 1) // w, fuel=400_000_000))
    return jobs


def c03_jobs(tier):
    ks = [0, 1, 2, 3, 4, 5]
    jobs = [J("hsms", "ZZ_C03_raw", k=k, freelen=0, timeout_s=(1500 if tier == "quick" else 7200)) for k in ks]
    jobs += [J("hsms", "ZZ_C03_raw", k=k, freelen=1) for k in ([0, 1] if tier == "quick" else [0, 1, 2])]
    # the same bytes as the front part of a larger buffer (16 zero bytes / 17 bytes repeating the input behind them)
    jobs += [J("hsms", "ZZ_C03_raw", k=k, freelen=0, spare=sp, timeout_s=(1500 if tier == "quick" else 7200)) for k in ks[:4] for sp in (16, 17)]
    ns = [0, 1, 2] if tier == "quick" else [0, 1, 2, 3]
    for kind in range(1, 14):
        for n in ns:
            for nlb in (1, 2, 3):
                for corr in range(8):
                    if tier == "quick" and (n == 2 and nlb == 2 or corr in (5, 6, 7) and (n, nlb) != (1, 1)):
                        continue
                    jobs.append(J("hsms", "ZZ_C03_structured", kind=kind, n=n, nlb=nlb, corr=corr))
                    if corr in (1, 3) and n == 1:
                        jobs.append(J("hsms", "ZZ_C03_structured", kind=kind, n=n, nlb=nlb, corr=corr, spare=16 + nlb % 2))
    # longer ASCII / binary / numeric items with every payload byte arbitrary (checks that work on 8 or 16 bytes at a time)
    for kind, sizes in ((3, (7, 8, 9, 16, 17, 33)), (1, (8, 17)), (11, (9,)), (6, (5, 9)), (9, (3, 5))):
        for n in (sizes if tier == "quick" else sizes + (24, 32, 40)):
            if kind == 9 and n > 5:
                continue
            jobs.append(J("hsms", "ZZ_C03_structured", kind=kind, n=n, nlb=1 + n % 2, corr=0))
    for kind in (3, 1):
        for nlb, present in ((2, 0), (2, 256), (2, 257), (3, 0), (3, 256), (3, 300)) + (() if tier == "quick" else ((3, 1000), (2, 1000))):
            if tier == "quick" and kind == 1 and present not in (256,):
                continue
            jobs.append(J("hsms", "ZZ_C03_lenbytes", kind=kind, nlb=nlb, present=present, fuel=2_000_000_000, timeout_s=(1500 if tier == "quick" else 7200)))
    for order in range(4):
        jobs.append(J("hsms", "ZZ_C03_mixed", order=order, fuel=400_000_000))
    jobs += [J("ast", "ZZ_C13_header", typ=t) for t in (0, 1, 3, 6, 10)]  # re-encoding uses the item header for every size
    # decode -> re-encode of whole trees (harness shared with C01): nested lists of equal size, empty items first, ...
    if tier == "quick":
        jobs.append(J("hsms", "ZZ_C01_tree", depth=2, width=2, menu=2, maxn=1))
    else:
        jobs.append(J("hsms", "ZZ_C01_tree", depth=2, width=2, menu=4, maxn=1, timeout_s=7200))
    return jobs


def c07_jobs(tier):
    ks = [0, 1, 2, 3, 4] if tier == "quick" else [0, 1, 2, 3, 4, 5]
    jobs = [J("hsms", "ZZ_C07_raw", k=k, freelen=0, timeout_s=(1500 if tier == "quick" else 7200)) for k in ks]
    jobs += [J("hsms", "ZZ_C07_raw", k=k, freelen=1) for k in [0, 1]]
    depths = [0, 1, 2] if tier == "quick" else [0, 1, 2, 3, 4]
    for d in depths:
        for nlb in (1, 2, 3):
            for present in ((0, 2) if tier == "quick" else (0, 1, 2, 4)):
                for kind in ((0, 1, 3, 6, 9) if tier == "quick" else range(14)):
                    jobs.append(J("hsms", "ZZ_C07_declared", depth=d, nlb=nlb, present=present, kind=kind))
    for nlb, kind in ((2, 1), (3, 1), (3, 0), (3, 3), (2, 6)):
        jobs.append(J("hsms", "ZZ_C07_sparecap", nlb=nlb, kind=kind, extra=200000, fuel=400_000_000, timeout_s=(1500 if tier == "quick" else 7200)))
    for fam in range(14):
        scale = {3: 15000, 6: 3000, 12: 3000, 13: 3000, 7: 8000, 8: 6000, 9: 8000, 10: 8000, 11: 8000}.get(fam, 10000)  # members scale and 2*scale are decoded natively
        jobs.append(J("hsms", "ZZ_C07_growth", fam=fam, j=(32 if tier == "quick" or fam in (6, 12, 13) else 128), scale=scale, fuel=400_000_000))
    return jobs


def c09_jobs(tier):
    jobs = []
    kinds = [(0, 1), (0, 8), (1, 2), (1, 8), (2, 4), (2, 8), (3, 1), (4, 1)] if tier == "quick" else \
            [(0, 1), (0, 2), (0, 4), (0, 8), (1, 1), (1, 2), (1, 4), (1, 8), (2, 4), (2, 8), (3, 1), (4, 1)]
    n = 2 if tier == "quick" else 3
    for kind, w in kinds:
        for vars_ in range(1 << n):
            for fill in range(1 << n):
                if fill & ~vars_:
                    continue
                jobs.append(J("ast", "ZZ_C09_leaf", kind=kind, w=w, n=n, vars=vars_, fill=fill))
    for k in ([0, 1, 2] if tier == "quick" else [0, 1, 2, 3, 4]):
        for lo, hi in ((0, -1), (1, 2), (2, 2), (0, 0), (3, -1)):
            jobs.append(J("ast", "ZZ_C09_ascii", k=k, lo=lo, hi=hi))
    for fill in range(32):
        jobs.append(J("ast", "ZZ_C09_list", fill=fill, lvkind=0))
        if fill & 2:
            jobs.append(J("ast", "ZZ_C09_list", fill=fill, lvkind=1))
            jobs.append(J("ast", "ZZ_C09_list", fill=fill, lvkind=2))
    for order in range(6):
        jobs.append(J("ast", "ZZ_C09_message", order=order))
    jobs += [J("ast", "ZZ_C16_dupnames2", which=w, fresh=f) for w in (0, 1, 2, 3, 7, 8, 9, 10, 11, 12, 13) for f in (0, 1)]  # refused exactly as the constructor refuses (harness shared with C16)
    return jobs


def c18_jobs(tier):
    if tier == "quick":
        return [J("ast", "ZZ_C18_producers", w0=w, steps=s, timeout_s=1500) for w in (0, 1, 2) for s in (1, 2)]
    jobs = [J("ast", "ZZ_C18_producers", w0=w, steps=s, timeout_s=7200) for w in (0, 1, 2) for s in (1, 2)]
    # three calls: sharded over direction, name and the first operation (18 shards per start state)
    for w in (0, 1, 2):
        for d in range(3):
            for nm in range(2):
                for op in range(3):
                    jobs.append(J("ast", "ZZ_C18_producers", w0=w, steps=3, timeout_s=7200, **{"force.dir": d, "force.name": nm, "force.op_0": op}))
    return jobs


def c16_jobs(tier):
    jobs = []
    for order in (0, 1, 2):
        jobs.append(J("ast", "ZZ_C16_leaf", order=order, maxn=(2 if tier == "quick" else 3)))
        if tier == "quick":
            jobs.append(J("ast", "ZZ_C16_tree", order=order, depth=1, width=2, maxn=1, kinds=1, timeout_s=1500))
            jobs.append(J("ast", "ZZ_C16_tree", order=order, depth=0, width=3, maxn=1, kinds=4, timeout_s=1500))
        else:
            jobs.append(J("ast", "ZZ_C16_tree", order=order, depth=1, width=2, maxn=1, kinds=2, timeout_s=7200))
            jobs.append(J("ast", "ZZ_C16_tree", order=order, depth=1, width=2, maxn=1, kinds=3, timeout_s=7200))
            jobs.append(J("ast", "ZZ_C16_tree", order=order, depth=0, width=3, maxn=2, kinds=7, timeout_s=7200))
        jobs.append(J("ast", "ZZ_C16_shared", order=order))
    # a variable-free item of ANY size encodes: the header function never reports an error within the limit (harness shared with C13)
    jobs += [J("ast", "ZZ_C13_header", typ=t) for t in range(14)]
    # one scalar item with more than 65,536 variables (listed once each, in order); first, so that it runs alongside the others
    jobs = [J("ast", "ZZ_C16_manyvars", n=n, kind=k, fuel=40_000_000_000, timeout_s=7200) for n, k in ([(66000, 0)] if tier == "quick" else [(66000, 0), (66000, 1), (70000, 2)])] + jobs
    jobs += [J("ast", "ZZ_C16_manyvars", n=n, kind=k) for n in (2, 300) for k in (0, 1, 2)]
    jobs += [J("ast", "ZZ_C16_dupfill", which=w) for w in range(5)]
    jobs += [J("ast", "ZZ_C16_dupnames2", which=w, fresh=f) for w in range(14) for f in (0, 1)]
    jobs += [J("ast", "ZZ_C16_message", kind=k, wrap=w) for k in range(10) for w in (0, 1, 2)]
    jobs += [J("ast", "ZZ_C16_ascii", k=k) for k in ([0, 1, 2, 3] if tier == "quick" else [0, 1, 2, 3, 4, 5])]
    return jobs


def c10_jobs(tier):
    def shards(depth, before, after, R, kinds, ibefore, iafter, **kw):
        out = []
        for nb in range(before):
            for k in range(kinds + 1 if depth > 0 else kinds):
                for ell in range(2):
                    p = {"depth": depth, "before": before, "after": after, "R": R, "kinds": kinds, "ibefore": ibefore, "iafter": iafter,
                         "force.tnb": nb, "force.tb_0k": k, "force.tell": ell}
                    out.append(J("ast", "ZZ_C10_expand", **p, **kw))
        return out
    big = 11 if tier == "quick" else 101
    fixed = [J("ast", "ZZ_C10_shapes", shape=0, n=big, depth=0), J("ast", "ZZ_C10_shapes", shape=1, n=11, depth=0)]
    fixed += [J("ast", "ZZ_C10_shapes", shape=2, n=0, depth=d) for d in ((1, 3, 5) if tier == "quick" else (1, 2, 3, 4, 5, 6))]
    if tier == "quick":
        return fixed + shards(1, 2, 1, 2, 2, 1, 0, timeout_s=1500)
    return fixed + (shards(1, 2, 1, 2, 3, 1, 1, timeout_s=7200) + shards(2, 1, 1, 2, 2, 1, 0, timeout_s=7200)
            + shards(1, 2, 1, 1, 2, 2, 1, timeout_s=7200) + shards(0, 3, 1, 3, 4, 0, 0, timeout_s=7200))


def c11_jobs(tier):
    jobs = [J("hsms", "ZZ_C11_alias", scn=i, h=0) for i in range(11)]
    jobs += [J("hsms", "ZZ_C11_alias", scn=12, h=0, kind=k, n=n) for k in range(14) for n in ((0, 1, 2) if k else (0,))]
    jobs += [J("hsms", "ZZ_C11_alias", scn=13, h=0)]
    jobs += [J("hsms", "ZZ_C11_alias", scn=16, h=0, fuel=400_000_000)]
    jobs += [J("hsms", "ZZ_C11_alias", scn=14, h=0, kind=k) for k in range(7)]
    jobs += [J("hsms", "ZZ_C11_alias", scn=15, h=0, kind=k) for k in range(3)]
    jobs += [J("hsms", "ZZ_C11_alias", scn=11, h=h, timeout_s=(1500 if tier == "quick" else 7200)) for h in [1, 2, 3]]
    return jobs


INT_TYPES = [4, 5, 6, 7, 10, 11, 12, 13]  # I8 I1 I2 I4 U8 U1 U2 U4 (index into zzTypes)


def c05_jobs(tier):
    jobs = []
    T = dict(timeout_s=(1500 if tier == "quick" else 7200))
    for typ in INT_TYPES + [1, 3]:
        for neg in (0, 1):
            if tier == "quick":
                combos = [(0, 1), (0, 3), (0, 4), (1, 2), (1, 4), (3, 8), (2, 3)]
            else:
                combos = [(0, 1), (0, 2), (0, 3), (0, 5), (1, 1), (1, 2), (1, 4), (1, 8), (2, 3), (2, 6), (3, 8), (3, 9), (3, 16)]
            for cls, k in combos:
                jobs.append(J("sml", "ZZ_C05_int", typ=typ, cls=cls, k=k, neg=neg, edge=0, **T))
            # literals straddling the limit of the type: leading digits of the limit concrete, last digit(s) symbolic
            for cls in (0, 1, 2, 3):
                for edge in ((1,) if tier == "quick" else (1, 2)):
                    jobs.append(J("sml", "ZZ_C05_int", typ=typ, cls=cls, k=0, neg=neg, edge=edge, **T))
                for edge in (3, 4):  # around and beyond 2^64 for every item type
                    if tier != "quick" or typ in (1, 3, 4, 10, 11, 6) or cls == 0:
                        jobs.append(J("sml", "ZZ_C05_int", typ=typ, cls=cls, k=0, neg=neg, edge=edge, **T))
    jobs += [J("sml", "ZZ_C05_follow", lit=i, **T) for i in range(8)]
    jobs += [J("sml", "ZZ_C05_vars", form=f, **T) for f in range(3)]
    jobs += [J("sml", "ZZ_C05_signs", typ=t, **T) for t in INT_TYPES + [1]]
    for typ in INT_TYPES + [1]:
        jobs.append(J("sml", "ZZ_C05_two", typ=typ, **T))
    for typ in ([1, 5, 12, 10] if tier == "quick" else INT_TYPES + [1]):
        for cls, k in ((3, 2), (3, 3), (2, 2)) + (() if tier == "quick" else ((3, 5), (2, 3), (2, 4))):
            jobs.append(J("sml", "ZZ_C05_radix", typ=typ, cls=cls, k=k, **T))
    for typ in range(1, 14):
        for which in range(9):
            jobs.append(J("sml", "ZZ_C05_wrongtype", typ=typ, which=which))
    for k in ([0, 1, 2, 3, 4] if tier == "quick" else [0, 1, 2, 3, 4, 5]):
        jobs.append(J("sml", "ZZ_C05_string", k=k, **T))
    jobs.append(J("sml", "ZZ_C05_mixed", **T))
    jobs.append(J("sml", "ZZ_C05_bool"))
    for typ in (8, 9):
        for i in range(19):
            jobs.append(J("sml", "ZZ_C05_float", typ=typ, i=i))
    for which in range(3):
        for lit in range(4):
            jobs.append(J("sml", "ZZ_C05_floatmix", which=which, lit=lit))
    return jobs


def c15_jobs(tier):
    jobs = []
    T = dict(timeout_s=(1500 if tier == "quick" else 7200))
    types = list(range(14))
    ks = [(1, 1)] if tier == "quick" else [(1, 1), (2, 2), (3, 1), (5, 4)]
    for typ in types:
        for form in range(4):
            for c in ([0, 1, 2] if tier == "quick" else [0, 1, 2, 3, 4]):
                for ka, kb in ks:
                    jobs.append(J("sml", "ZZ_C15_literal", typ=typ, form=form, c=c, ka=ka, kb=kb, sp=0, nines=0, **T))
            jobs.append(J("sml", "ZZ_C15_literal", typ=typ, form=form, c=1, ka=2, kb=2, sp=1, nines=0, **T))
            jobs.append(J("sml", "ZZ_C15_literal", typ=typ, form=form, c=2, ka=1, kb=1, sp=2, nines=0, **T))  # tab / CR / LF inside the brackets
            if typ != 3:
                for c, vp in ((1, 0), (2, 0), (3, 1)):  # an item that holds a variable has a count like any other
                    jobs.append(J("sml", "ZZ_C15_literal", typ=typ, form=form, c=c, ka=1, kb=1, sp=0, nines=0, varpos=vp, **T))
            if typ in (0, 3, 5):
                jobs.append(J("sml", "ZZ_C15_literal", typ=typ, form=form, c=1, ka=1, kb=1, sp=0, nines=1, **T))
                for z in (1, 2, 3):  # bounds zero-padded to 19, 20, 21 digits
                    jobs.append(J("sml", "ZZ_C15_literal", typ=typ, form=form, c=(z if tier != "quick" else 1), ka=1, kb=1, sp=0, nines=0, zeros=z, **T))
    for form in range(4):
        for c in ([0, 1, 3] if tier == "quick" else [0, 1, 2, 3, 4, 12]):
            for ka, kb in ([(1, 1)] if tier == "quick" else [(1, 1), (2, 2), (1, 3)]):
                jobs.append(J("sml", "ZZ_C15_asciivar", form=form, c=c, ka=ka, kb=kb, sp=(c % 2), nines=0, **T))
        jobs.append(J("sml", "ZZ_C15_asciivar", form=form, c=1, ka=1, kb=1, sp=0, nines=0, zeros=2, **T))
    for c in (0, 1, 2, 5):
        jobs.append(J("sml", "ZZ_C15_direct", c=c))
    for c in (0, 1, 3, 6):
        jobs.append(J("sml", "ZZ_C15_ellipsis", c=c, **T))
    return jobs


SKEL_LEN = [43, 36, 6, 21, 41, 25, 62, 53, 34, 19, 45]


def c06_jobs(tier):
    jobs = [J("sml", "ZZ_C06_base")]
    T = dict(timeout_s=(1500 if tier == "quick" else 7200))
    for k in ([0, 1, 2, 3] if tier == "quick" else [0, 1, 2, 3, 4]):
        jobs.append(J("sml", "ZZ_C06_raw", k=k, **T))
    for sk in range(11):
        # one arbitrary byte at every position: sharded by position ranges via explicit pos
        for pos in range(SKEL_LEN[sk] + 1):
            if tier == "quick" and sk in (0, 4) and pos % 2 == 1:
                continue
            jobs.append(J("sml", "ZZ_C06_soup", sk=sk, n=1, pos=pos, **T))
        if tier != "quick":
            for pos in range(SKEL_LEN[sk] + 1):
                jobs.append(J("sml", "ZZ_C06_soup", sk=sk, n=2, pos=pos, **T))
    hot = [(0, 4), (0, 13), (0, 16), (0, 22), (1, 6), (1, 14), (3, 7), (1, 19), (1, 30), (3, 10), (3, 17), (2, 4), (5, 20)]
    if tier == "quick":
        for sk, pos in hot[:7]:
            jobs.append(J("sml", "ZZ_C06_soup", sk=sk, n=2, pos=pos, **T))
    for which in (10, 11, 12):
        for k in ((1, 2) if tier == "quick" else (1, 2, 3)):
            jobs.append(J("sml", "ZZ_C06_numbers", which=which, k=k, **T))
    # deep nesting terminates: an exhausted instruction budget is a witness that the native replay runs under a watchdog
    for leaf in range(4):
        for d in ((40,) if tier == "quick" else (40, 100)):
            jobs.append(J("sml", "ZZ_C06_deep", d=d, leaf=leaf, fuel=50_000_000, call_depth=2000))
    for which in range(10):
        for k in ([1, 3, 10] if tier == "quick" else [1, 2, 3, 5, 8, 10, 12]):
            if tier == "quick" and k == 10 and which in (3, 6, 9):
                continue  # 10-digit value literals are solver-heavy: thorough tier
            jobs.append(J("sml", "ZZ_C06_numbers", which=which, k=k, **T))
    return jobs


def c19_jobs(tier):
    jobs = []
    T = dict(timeout_s=(1500 if tier == "quick" else 7200))
    nt, ns = 9, 8
    for t1 in range(nt):
        for t2 in range(nt):
            for sep in range(ns):
                jobs.append(J("sml", "ZZ_C19_concat", t1=t1, t2=t2, sep=sep, three=0, **T))
    # separators that are runs of non-ASCII blanks; a reply without direction behind a primary with one
    for sep in (8, 9, 10, 11):
        for t1, t2 in ((0, 1), (4, 2), (2, 4)):
            jobs.append(J("sml", "ZZ_C19_concat", t1=t1, t2=t2, sep=sep, three=0, **T))
    for t1, t2 in ((13, 12), (0, 12), (12, 13), (13, 13), (2, 12)):
        for sep in (1, 2):
            jobs.append(J("sml", "ZZ_C19_concat", t1=t1, t2=t2, sep=sep, three=0, **T))
    # many warnings per message; names reused inside items of every type
    for t1, t2 in ((10, 10), (10, 1), (8, 10), (2, 10), (11, 11), (7, 11), (0, 11), (1, 11), (11, 7), (11, 0), (6, 11)):
        for sep in (0, 2, 5):
            jobs.append(J("sml", "ZZ_C19_concat", t1=t1, t2=t2, sep=sep, three=0, **T))
    # many messages in one text, deep nesting, a line longer than 131,072 columns with warnings on it and behind it
    for t1, t2, sep in ((14, 0, 1), (0, 14, 2), (14, 15, 2), (15, 14, 0), (15, 1, 2), (1, 15, 5), (16, 8, 2), (16, 1, 2), (8, 16, 2), (16, 12, 1)):
        jobs.append(J("sml", "ZZ_C19_concat", t1=t1, t2=t2, sep=sep, three=0, fuel=2_000_000_000, call_depth=3000, **T))
    for t1, t2, sep in ((17, 18, 2), (18, 17, 1), (17, 0, 0)):
        jobs.append(J("sml", "ZZ_C19_concat", t1=t1, t2=t2, sep=sep, three=0, fuel=2_000_000_000, call_depth=6000, **T))
    jobs.append(J("sml", "ZZ_C19_concat", t1=2, t2=2, t3=10, sep=1, sep2=2, three=1, **T))
    jobs.append(J("sml", "ZZ_C19_concat", t1=7, t2=0, t3=11, sep=2, sep2=0, three=1, **T))
    # a part that begins with k arbitrary bytes (whatever is accepted at the start of a text is accepted behind another text)
    for k in ((1, 2, 3) if tier == "quick" else (1, 2, 3, 4)):
        for sep in (0, 1, 2, 5):
            jobs.append(J("sml", "ZZ_C19_concat", t1=4, t2=9, sep=sep, three=0, k=k, **T))
            jobs.append(J("sml", "ZZ_C19_concat", t1=9, t2=0, sep=sep, three=0, k=k, **T))
    triples = [(0, 1, 0, 0, 2), (1, 1, 1, 7, 0), (4, 2, 3, 0, 0), (5, 5, 5, 2, 5), (6, 0, 6, 7, 7)]
    if tier != "quick":
        triples += [(a, b, c, s, r) for a in (0, 1, 5) for b in (1, 4, 6) for c in (0, 2, 3) for s in (0, 3, 7) for r in (0, 5)]
    for a, b, c, s, r in triples:
        jobs.append(J("sml", "ZZ_C19_concat", t1=a, t2=b, t3=c, sep=s, sep2=r, three=1, **T))
    return jobs


SEQ_TOK = [20, 17, 16, 7, 14, 7, 16, 32, 29, 9, 8, 14, 3, 6]


def c08_jobs(tier):
    jobs = []
    T = dict(timeout_s=(1500 if tier == "quick" else 7200))
    for seq, nt in enumerate(SEQ_TOK):
        for j in range(nt + 1):
            for n in ((0, 1, 2) if tier == "quick" else (0, 1, 2, 3)):
                if tier == "quick" and n == 2 and (j + seq) % 2 == 1:
                    continue
                jobs.append(J("sml", "ZZ_C08_space", seq=seq, j=j, n=n, **T))
            for k in ((0, 1, 2) if tier == "quick" else (0, 1, 2, 3, 4)):
                for end in (0, 1, 2):
                    for blank in (0, 1):
                        if end == 2 and j != nt:
                            continue
                        if tier == "quick" and (k == 2 and (j + seq) % 3 != 0 or end == 1 and blank == 1):
                            continue
                        jobs.append(J("sml", "ZZ_C08_comment", seq=seq, j=j, k=k, end=end, blank=blank, **T))
        for j in range(nt):
            jobs.append(J("sml", "ZZ_C08_case", seq=seq, j=j, **T))
    return jobs


def c04_jobs(tier):
    jobs = []
    T = dict(timeout_s=(1500 if tier == "quick" else 7200))
    for k in ([0, 1, 2] if tier == "quick" else [0, 1, 2, 3, 4]):
        jobs.append(J("sml", "ZZ_C04_header", k=k, item=(1 if k <= 1 else 0), sf=(1 if k <= 1 else 0), **T))
    if tier != "quick":
        jobs.append(J("sml", "ZZ_C04_header", k=2, item=0, sf=1, **T))
    for k in ([0, 1, 2] if tier == "quick" else [0, 1, 2, 3, 4]):
        jobs.append(J("sml", "ZZ_C04_ascii", k=k, **T))
    for typ in [1, 2] + INT_TYPES:
        for n in ([0, 1, 2] if tier == "quick" else [0, 1, 2, 3]):
            if tier == "quick" and typ in (6, 12) and n > 1:
                continue  # two full-range 16-bit decimals per path are solver-heavy: thorough tier
            if typ in (6, 12) and n > 2:
                continue
            jobs.append(J("sml", "ZZ_C04_leaf", typ=typ, n=n, wide=0, **T))
    for w in (4, 8):
        jobs.append(J("sml", "ZZ_C04_float", w=w, **T))
    for which in range(7):
        jobs.append(J("sml", "ZZ_C04_vars", which=which, symc=(0 if tier == "quick" else 1), **T))
    for t in range(7):
        jobs.append(J("sml", "ZZ_C04_fixed", t=t, **T))
    for t in (14, 15, 17, 18):  # many messages, deep and wide trees
        jobs.append(J("sml", "ZZ_C04_fixed", t=t, fuel=2_000_000_000, call_depth=6000, **T))
    return jobs


def c17_jobs(tier):
    D = dict(call_depth=6000, fuel=400_000_000)
    return ([J("sml", "ZZ_C17_noninterference", op=op, **D) for op in range(15)] + [J("sml", "ZZ_C17_results", which=w) for w in range(4)]
            + [J("sml", "ZZ_C17_bare", order=o) for o in range(4)] + [J("sml", "ZZ_C17_history", b=b, **D) for b in range(15)])


def c12_jobs(tier):
    jobs = []
    for w in (1, 2, 4, 8, 0, 3):
        for gt in range(10):
            jobs.append(J("ast", "ZZ_C12_int", w=w, gt=gt))
            jobs.append(J("ast", "ZZ_C12_uint", w=w, gt=gt))
    for w in (4, 8, 2):
        for gt in range(12):
            jobs.append(J("ast", "ZZ_C12_float", w=w, gt=gt))
    for kind, ws in ((0, (1, 8)), (1, (2, 8)), (2, (1,))):
        for w in ws:
            for gt in range(10):
                jobs.append(J("ast", "ZZ_C12_fill", kind=kind, w=w, gt=gt))
    jobs.append(J("ast", "ZZ_C12_binary_int"))
    for k in ([0, 1, 2, 3] if tier == "quick" else [0, 1, 2, 3, 8, 9]):
        jobs.append(J("ast", "ZZ_C12_binary_str", k=k))
    # long literals: a concrete run of digits ("1010...", or zeros) in front of k arbitrary characters
    for pre in (6, 7, 8, 61, 62, 63, 64, 70):
        for k in (1, 2, 3):
            for pz in (0, 1):
                jobs.append(J("ast", "ZZ_C12_binary_str", k=k, pre=pre, pz=pz))
    jobs += [J("ast", "ZZ_C12_wrongtype", which=i) for i in range(9)]
    jobs.append(J("ast", "ZZ_C12_boolean"))
    for k in ([0, 1, 2, 3, 7, 8, 9, 16, 17, 33] if tier == "quick" else [0, 1, 2, 3, 4, 5, 7, 8, 9, 15, 16, 17, 24, 31, 32, 33, 64, 65]):
        jobs.append(J("ast", "ZZ_C12_ascii", k=k))  # word-at-a-time scans: every offset of 8-, 16- and 32-byte groups
    for k in ([0, 1, 2, 3, 4] if tier == "quick" else [0, 1, 2, 3, 4, 5, 6]):
        for kind in range(7):
            if tier == "quick" and k == 4 and kind not in (0, 6):
                continue
            jobs.append(J("ast", "ZZ_C12_varname", k=k, kind=kind, timeout_s=(1500 if tier == "quick" else 7200)))
    for k in ([0, 1, 2] if tier == "quick" else [0, 1, 2, 3, 4]):
        for kind in range(4):
            jobs.append(J("ast", "ZZ_C12_varname_idx", k=k, kind=kind, timeout_s=(1500 if tier == "quick" else 7200)))
    jobs += [J("ast", "ZZ_C16_dupnames2", which=w, fresh=f) for w in range(14) for f in (0, 1)]  # duplicate names through fills and next to ASCII variables (harness shared with C16)
    jobs += [J("ast", "ZZ_C12_ellipsis", which=i) for i in range(6)]
    jobs += [J("ast", "ZZ_C12_ellipsis", which=6, k=k) for k in ([0, 1, 2, 3] if tier == "quick" else [0, 1, 2, 3, 4, 5])]
    jobs += [J("ast", "ZZ_C12_ellipsis", which=7, k=k, order=o) for k in range(6) for o in range(5)]
    jobs += [J("ast", "ZZ_C12_dupnames", which=i) for i in range(6)]
    jobs += [J("ast", "ZZ_C12_message", which=i) for i in (0, 1, 2, 4)]
    jobs += [J("ast", "ZZ_C12_message", which=3, k=k) for k in ([0, 1, 2, 3] if tier == "quick" else [0, 1, 2, 3, 4, 5])]
    return jobs


TYPE_W = [1, 1, 1, 1, 8, 1, 2, 4, 8, 4, 8, 1, 2, 4]


def c13_jobs(tier):
    jobs = [J("ast", "ZZ_C13_header", typ=t) for t in range(14)]
    jobs += [J("ast", "ZZ_C13_bytelen", typ=t) for t in range(14)]
    BIG = dict(fuel=4_000_000_000, timeout_s=7200)
    for t in range(14):
        w = TYPE_W[t]
        sizes = [0, 1, 3, 255 // w, 255 // w + 1]
        if tier != "quick":
            sizes += [65535 // w, 65535 // w + 1]
        for n in sizes:
            jobs.append(J("ast", "ZZ_C13_factory", typ=t, n=n, via=0, **BIG))
        if t == 3:
            # ASCII: first size beyond the limit through both ways to make the item (factory, fill of an unbounded variable)
            jobs.append(J("ast", "ZZ_C13_factory", typ=t, n=16777216, via=0, heavy=1, **BIG))
            jobs.append(J("ast", "ZZ_C13_factory", typ=t, n=16777216, via=1, heavy=1, **BIG))
            jobs.append(J("ast", "ZZ_C13_factory", typ=t, n=300, via=1, **BIG))
    # the real limit: first size beyond it for all 14 formats (the factory refuses at its first statement)
    for t in range(14):
        if t != 3:
            jobs.append(J("ast", "ZZ_C13_factory", typ=t, n=16777215 // TYPE_W[t] + 1, via=0, heavy=1, **BIG))
    if tier != "quick":
        # the largest constructible size for the 4- and 8-byte formats and ASCII (2M / 4M / 16M elements)
        for t in (4, 8, 10, 7, 9, 13, 3):
            jobs.append(J("ast", "ZZ_C13_factory", typ=t, n=16777215 // TYPE_W[t], via=0, heavy=1, **BIG))
        jobs.append(J("ast", "ZZ_C13_factory", typ=3, n=16777215, via=1, heavy=1, **BIG))
    # decoder read-back of length fields (harnesses shared with C03): all length bytes symbolic with
    # 256+ bytes present, and length fields of different widths in sequence
    for kind in (3, 1):
        for nlb, present in ((1, 0), (1, 255), (2, 0), (2, 256), (3, 0), (3, 256)) + (() if tier == "quick" else ((2, 300), (3, 1000))):
            jobs.append(J("hsms", "ZZ_C03_lenbytes", kind=kind, nlb=nlb, present=present, fuel=2_000_000_000, timeout_s=(1500 if tier == "quick" else 7200)))
    for order in range(4):
        jobs.append(J("hsms", "ZZ_C03_mixed", order=order, fuel=400_000_000))
    # items around the length-byte boundaries as list elements (a list's length arithmetic over its children), many empty lists
    for t in range(1, 14):
        w = TYPE_W[t]
        jobs.append(J("hsms", "ZZ_C02_boundary", kind=t, n=256 // w + (1 if w == 1 else 0), fuel=2_000_000_000, timeout_s=7200))
    for n, kind in ((600, 0), (600, 1)):
        jobs.append(J("hsms", "ZZ_C02_manylists", n=n, kind=kind, fuel=2_000_000_000, timeout_s=7200))
    return jobs


def smoke_jobs(tier):
    return [J("sml", "ZZ_SML_smoke", which=w) for w in range(4)]


PROPS = {
    "C17": dict(jobs=c17_jobs, must_reach=["end"], level="other", race=True,
                explanation="Non-interference certificate decided by symbolic execution: for each operation named in the property (print, encode, list, fill incl. ellipsis expansion, producers, both parsers) on symbolic shared objects, the engine's write-set monitor shows on every explored path that the call stores only into memory it allocated itself (no store into any cell reachable from the shared items/messages/arguments or from any package-level variable of the repository; stores under a held sync.Mutex or inside sync.Once.Do are exempt) and that the result is identical under four map iteration orders. Calls that only read shared memory cannot race and cannot influence each other, whatever the schedule. Real schedules are not executed.",
                level_text="Sufficient-condition certificate (not schedule exploration): symbolic execution with a ghost write-set monitor over all cells reachable from the shared objects and package-level variables, plus map-iteration-order independence of every result.",
                level_note="The engine is single-threaded: Go scheduler interleavings are not enumerated. The deciding step is the write-set certificate; witnesses, sampled paths and the inputs of paths the engine cannot finish are replayed natively in 8 goroutines under the race detector (confirmation of witnesses, not exploration of schedules). Standard-library entry points (regexp, fmt, strconv, unicode) are trusted to be goroutine-safe as documented. A change that starts goroutines makes the affected paths INCONCLUSIVE for the engine; only a data race that the native replay of their inputs happens to show is then reported.",
                technique="symbolic execution of go/ssa with a ghost write-set monitor (non-interference certificate) + SMT-decided path feasibility",
                bounds={"operations": 15, "objects": "one template message (variables of all kinds, ellipsis), one complete message; constants symbolic", "map orders": 4},
                outside=["actual concurrent schedules", "operations on objects outside the menu"]),
    "C04": dict(jobs=c04_jobs, must_reach=["end"],
                level_text="Bounded model checking of print->parse: messages are built with constructors from symbolic header fields, names, characters and numbers, printed by the real String methods (fmt/strconv modelled, digits of symbolic numbers materialised by forking on their length) and parsed by the real lexer/parser in the same path; the result must be one message, no diagnostics, equal fields/variables/printed form/bytes. Conversely accepted menu texts are printed and re-parsed (fixed point).",
                level_note="Trusted: go/ssa, engine string/number models, z3 (decimal digit arithmetic), strconv's float printing and parsing (menu only).",
                bounds={"quick": "names k<=2 arbitrary bytes; ASCII items k<=2 characters (all 128); 1- and 2-byte numeric formats full range with n<=2 elements, 4/8-byte formats boundary menu; float menu 12x12; 5 variable/ellipsis templates with ASCII bounds 0..12", "thorough": "k<=4; n<=3; 4/8-byte formats full range with 1 element"},
                outside=["shortest-digit float printing beyond the menu", "messages whose single ellipsis carries a non-canonical name", "names the lexer reads as another token (excluded by the property)"]),
    "C08": dict(jobs=c08_jobs, must_reach=["end"],
                level_text="Bounded model checking, relational: the same token sequence is laid out twice (base and variant) and parsed twice in one symbolic path; the variant has arbitrary white-space bytes at a boundary, a // comment with arbitrary bytes, or symbolic letter case in a keyword; messages must be identical and every diagnostic must keep its text and move exactly with the token it points at.",
                level_note="Trusted: go/ssa, engine, z3. Token sequences: 6 (valid, warning, two messages, range error, duplicate variable, invalid type).",
                bounds={"quick": "one boundary per path: 0..2 white-space bytes; comments of 0..2 arbitrary bytes ending in LF, CRLF or end of input; all case patterns of one keyword", "thorough": "3 white-space bytes, comments up to 4 bytes"},
                outside=["two simultaneous layout changes", "comment text longer than the bound", "removing white space between tokens that are not self-delimiting"]),
    "C19": dict(jobs=c19_jobs, must_reach=["end"],
                level_text="Bounded model checking, relational: Parse(t1 sep t2 [sep t3]) and Parse of each part run in the same symbolic path (holes: digits, names, one arbitrary white-space separator byte); message count, printed form, variables, header fields and the position-shifted warnings are compared.",
                level_note="Trusted: go/ssa, engine, z3. Texts come from a menu of 7 accepted skeletons that reuse variable names and contain ellipses, header-only messages, names and terminators in every position.",
                bounds={"quick": "9x9 text pairs x 8 separators, 5 triples; plus fixed pairs with a text of 70 messages, trees 24 and 130 levels deep, lists of 110+60 siblings, a 140,000-column line, runs of non-ASCII blanks, 34 warnings", "thorough": "all pairs x separators, 167 triples"},
                outside=["texts outside the menu", "separators longer than 4 bytes"]),
    "C06": dict(jobs=c06_jobs, must_reach=["end"],
                level_text="Bounded model checking of totality: the whole lexer+parser is executed symbolically on arbitrary byte strings, on SML skeletons with arbitrary bytes inserted at every position, and on texts whose size/count/code numbers have symbolic digits; on every path no panic escapes, the run terminates (channel deadlock and fuel exhaustion are reported), errors imply no messages, diagnostics carry an in-range 'Ln x, Col y: ', and no allocation request is sized by a number in the text (witnesses measured natively).",
                level_note="Trusted: go/ssa, engine (buffered-channel FIFO model of the lexer's token channel, regexp simulation), z3. Memory verdicts are native TotalAlloc measurements of solver witnesses.",
                bounds={"quick": "arbitrary strings k<=3 bytes; 6 skeletons x 1 arbitrary byte at (every / every second) position, 2 bytes at 4 positions; numbers with 1, 3, 10 digits in 10 places", "thorough": "k<=4; 2 arbitrary bytes at every position; numbers up to 20 digits"},
                outside=["inputs longer than the bound", "runtime-fatal stack exhaustion on megabyte-deep nesting", "coverage-guided mutation (different technique)"]),
    "C15": dict(jobs=c15_jobs, must_reach=["end"],
                level_text="Bounded model checking: the digits of both bounds of every declaration form are symbolic and run through the real lexer, strconv.Atoi (interpreted from SSA, overflow clamp included) and parser; accept/reject and the size error's text and position are compared with the bounds computed by the harness.",
                level_note="Trusted: go/ssa, engine, z3.",
                bounds={"quick": "7 item types x 4 forms x counts 0..2, 1 digit per bound (+ a blank-padded variant with 2 digits, one arbitrary white-space byte of {SP,TAB,LF,CR} as padding, one element being a variable)", "thorough": "14 types, counts 0..4, up to 5 symbolic digits per bound; bounds of 20 digits (19 concrete nines + 1 symbolic digit) that overflow int"},
                outside=["declarations preceded by whitespace (position shift is C08)", "counts above 4"]),
    "C05": dict(jobs=c05_jobs, must_reach=["end"],
                level_text="Bounded model checking: message texts with literal holes whose every digit/character is symbolic are run through the real lexer and parser (regexp, strconv.ParseInt/ParseUint interpreted from their SSA); the denoted value is computed by the harness from the hole bytes and compared with the stored bytes; unrepresentable literals must give an error and no message.",
                level_note="Trusted: go/ssa, engine incl. regexp simulation and string models, z3. Float text->value conversion is trusted strconv (concrete menu only).",
                bounds={"quick": "integer literals: decimal k<=3 digits, hex 2, octal 3, binary 8, plus literals straddling the limit of every width and 2^64 (1 symbolic trailing digit) and literals one digit longer than 2^64-1 in all four bases; signs without digits; strings k<=3 bytes", "thorough": "decimal k<=5, hex 8, octal 6, binary 16 symbolic digits, plus literals straddling the limit of every width (1-2 symbolic trailing digits) in all four bases; strings k<=5"},
                outside=["decimal literals with a leading zero, '_' separators, '+' on unsigned items, '-0' on unsigned items (unspecified)", "control characters inside quoted strings other than CR/LF", "the text->float mapping of strconv.ParseFloat"]),
    "C11": dict(jobs=c11_jobs,
                level_text="Bounded model checking of the aliasing channels: every slice/map passed in or returned is mutated in place by a symbolic non-zero mask at a chosen position, and all observers of every pre-existing object are compared with their snapshots; the engine's slices share backing arrays exactly as Go's do.",
                level_note="Trusted: go/ssa, engine (slice aliasing and append growth follow the host runtime), z3. Scenarios are fixed call sequences (constructor, producers, fill, encode, decode), not arbitrary histories.",
                bounds={"scenarios": 16, "mutation": "one byte position (chosen, all positions explored) xor an arbitrary non-zero mask"},
                outside=["histories longer than the scenario sequences", "concurrent mutation (C17)"]),
    "C10": dict(jobs=c10_jobs,
                level_text="Bounded exhaustive symbolic exploration: every list template within the bound (item kinds, ellipsis positions, nesting are decisions) x every assignment of repeat counts 0..R or unfilled, compared with a reference expander written from the documentation.",
                level_note="Structural property: exhaustiveness is over templates/assignments within the bound. '...' and '...[0]' are both accepted for a single remaining ellipsis. Trusted: go/ssa, engine, the reference expander (harness/ast/c10.go).",
                bounds={"quick": "two levels of lists; top level <=2 items before and <=1 after an ellipsis, nested lists 1 item before and none after an ellipsis; item menu {constant, <I1 v>, nested list}; repeat counts 0..2 or unfilled", "thorough": "two levels with an item menu of 3 leaf kinds and counts 0..2; three levels (1 item before each ellipsis); nested lists with 2 items before and counts 0..1; flat lists of up to 3 items over 4 leaf kinds with counts 0..3"},
                outside=["larger templates and repeat counts (the property's 'randomly beyond')", "negative repeat counts"]),
    "C16": dict(jobs=c16_jobs,
                level_text="Bounded exhaustive symbolic exploration of tree shapes (every choice of kinds, variable positions, ellipsis positions is a decision explored by the engine) under three map iteration orders; Variables() is compared with the construction order and with the names tokenised from String().",
                level_note="Structural property: the solver decides feasibility of shape choices only; exhaustiveness is over shapes and iteration orders within the bound. Trusted: go/ssa, engine, harness tokenizer.",
                bounds={"quick": "leaves n<=2; lists depth 1 width<=2; one U1 item with 66,000 variables", "thorough": "width<=3 or depth 2; 66,000-70,000 variables in a U1, BOOLEAN and B item"},
                outside=["NewListNode(NewEmptyItemNode()) (undefined template)", "constants other than the fixed menu (their independence is C09)"]),
    "C18": dict(jobs=c18_jobs,
                level_text="Bounded model checking of short producer sequences: every accessor, Header, String and ToBytes are compared after every call with a field record maintained by the harness from the documented effect of each producer; arguments symbolic and unconstrained (rejected ones included).",
                level_note="Trusted: go/ssa, engine, z3. The item-tree effect of FillVariables is taken from ItemNode.FillVariables (decided by C09).",
                bounds={"quick": "<=2 producer calls", "thorough": "<=3 producer calls"},
                outside=["longer sequences", "message names beyond the two-entry menu (C12 covers names)"]),
    "C09": dict(jobs=c09_jobs,
                level_text="Bounded model checking: templates of every node kind with all variable/fill/split subsets enumerated within the bound; constants and fill-in values symbolic and unconstrained, so the refusal clause is decided for all values; oracle = the directly constructed node.",
                level_note="Trusted: go/ssa, engine (map iteration in insertion order; order dependence is examined in C16/C17), z3.",
                bounds={"quick": "leaf templates n=2 slots; nested list template with 5 variables; ASCII k<=2", "thorough": "n=3; all widths; k<=4"},
                outside=["fill values that themselves contain variables", "templates with ellipses (C10)"]),
    "C12": dict(jobs=c12_jobs,
                level_text="Bounded model checking: one harness per factory and accepted Go argument type with the argument fully symbolic (all 2^64 values per query), oracle = mathematical range test; names as k arbitrary bytes against a hand-written automaton of the documented grammar.",
                level_note="Trusted: go/ssa, engine (regexp simulation over the real regexp/syntax program), z3 incl. FP theory.",
                bounds={"quick": "1 element per call; names/strings k<=4 bytes", "thorough": "k<=6"},
                outside=["message names with non-ASCII whitespace", "binary string forms containing '_' (unspecified)"]),
    "C03": dict(jobs=c03_jobs, must_reach=["end"],
                level_text="Bounded model checking against a strict reference decoder written from the E5/E37 text: both run on the same symbolic bytes, verdict and canonical re-encoding compared on every path; plus structured encodings with non-minimal length bytes and single-point corruptions.",
                level_note="Trusted: go/ssa, engine, z3, and the reference decoder in harness/hsms/c03_c07.go (the oracle).",
                bounds={"quick": "unstructured: 14-byte frame + k<=3 arbitrary text bytes; structured: 13 formats x n<=2 x nlb 1..3 x 8 corruptions", "thorough": "k<=5; n<=3"},
                outside=["message text longer than the bound", "more than one simultaneous corruption in the structured family"]),
    "C07": dict(jobs=c07_jobs, must_reach=["end"],
                level_text="Bounded model checking of totality (no panic escapes Parse on any path) and of every variable-size allocation request against a threshold with the declared lengths symbolic; candidates are decided by native TotalAlloc measurement against 16 KiB*len+1 MiB.",
                level_note="Trusted: go/ssa, engine, z3; memory verdicts are native runtime.MemStats measurements of solver witnesses.",
                bounds={"quick": "k<=3 arbitrary bytes; declared-length headers at nesting depth<=2 with <=2 bytes present", "thorough": "k<=5; depth<=4"},
                outside=["runtime-fatal stack exhaustion on megabyte-deep nesting", "inputs longer than the bound"]),
    "C01": dict(jobs=c01_jobs,
                level_text="Bounded model checking of encode->decode->encode by symbolic execution of the real encoder and decoder: header fields and every element value symbolic, shapes enumerated within the bound.",
                level_note="Trusted: go/ssa, engine, z3. Shapes and sizes beyond the stated bound are outside (bounds and outside_claim in the evidence file).",
                bounds={"quick": "leaf formats x n<=2 elements; list trees depth<=2 width<=2 over 3 leaf formats; length boundaries 255/256/257", "thorough": "n<=6; trees depth 2 over 6 leaf formats, depth 3 over 1, depth 1 width 2 over all 13 formats with up to 2 elements; boundaries up to 65535/65536"},
                outside=["items of more than 65,537 elements", "trees beyond the stated depth/width", "messages built by the SML parser (covered by C04/C05 through ToBytes)"]),
    "C02": dict(jobs=c02_jobs,
                level_text="Bounded model checking: the encoder's output is compared byte for byte with an independent statement of SEMI E5/E37 for every value of every element (symbolic) within enumerated shapes; incomplete messages encode to nothing.",
                level_note="Trusted: go/ssa, engine, z3 (FP theory for F4 rounding).",
                bounds={"quick": "13 leaf formats x n<=2; list trees depth<=2 width<=2", "thorough": "n<=5; depth<=3"},
                outside=["items with more than 255 payload bytes (length-field arithmetic for every size is C13)"]),
    "C13": dict(jobs=c13_jobs, must_reach=["end"],
                level_text="Bounded model checking: the element count is one symbolic 64-bit integer (0 <= n < 2^40), so the limit test and the length header are decided for every size at once, per format.",
                level_note="Trusted: go/ssa, engine, z3. Counts >= 2^40 (no such slice can exist) are outside.",
                bounds={"n": "symbolic, 0 <= n < 2^40", "formats": 14},
                outside=["executing element loops of items above the materialised sizes", "messages longer than one 16,777,215-byte item or two 9 MB items (a decoder limit on the total message size above that is not seen)"]),
    "C14": dict(jobs=c14_jobs,
                level_text="Bounded model checking by symbolic execution of the real constructors, Type() and decoder: loop-free code over 10-byte headers, every field value symbolic, so each assertion is decided for all values at once.",
                level_note="Trusted: go/ssa, the engine's interpreter/simplifier, z3. Precondition len(systemBytes)==4 for the Req constructors.", bounds={"values": "unbounded: session id 16 bit, status/reason/pType/sType 8 bit, 4 system bytes all symbolic"},
                outside=[], assumptions=["len(systemBytes) == 4 for the ...Req constructors (documented precondition)"]),
}

DEV = {
    "SMOKE": dict(jobs=smoke_jobs, level_text="dev", level_note="dev", validate_per_job=12),
}
NOT_APPLICABLE = {}


# ---- bounds and exclusions as built (override the first-draft texts above; one place to keep current) ----
def _b(pid, quick, thorough, outside):
    PROPS[pid]["bounds"] = {"quick": quick, "thorough": thorough}
    PROPS[pid]["outside"] = outside


_b("C01",
   "13 leaf formats x n<=2 symbolic elements (header fields symbolic; encode, decode, re-encode; the same message re-sent under new session id / system bytes); list trees depth<=2 width<=2 over 2 leaf formats; items of 255/256/257 payload bytes for list, binary, ASCII, U1, U2, I2; item header for every size 0..2^40 per format; 3 SML-built messages; lists of 3 x 40,000 and 2 x 9,000,000 characters",
   "n<=6; trees depth 2 width 2 over 6 leaf formats, depth 3 over 1, depth 1 width 2 over 13 formats with <=2 elements; boundaries also 65,535/65,536 bytes",
   ["trees beyond the stated depth/width", "items between 65,537 and 8,999,999 bytes other than the named sizes", "messages longer than two 9 MB items (a limit on the total message size above that is not seen)"])
_b("C02",
   "13 leaf formats x n<=2 symbolic elements, built directly and by filling an all-variable template (before and after a second fill); list trees depth<=2 width<=2 over 2 leaf formats; incomplete messages (5 kinds, incl. the session id taken away again and both producer orders); item header for every size per format; items of 255/256 (W=1) or 256 payload bytes for every format; messages around one ASCII item of 300, 70,000 and 16,777,215 characters and around lists of 3 x 40,000 and 2 x 9,000,000 characters",
   "n<=5; trees as C01 thorough; item boundaries also 65,535/65,536 bytes",
   ["trees beyond the stated depth/width", "payload values of items above 2 elements other than 3 symbolic positions (first, middle, last) in boundary items"])
_b("C03",
   "14-byte frame + k<=5 arbitrary text bytes (frame fixed to a data message) and k<=1 with every frame byte arbitrary, against the reference decoder; 13 formats x n<=2 x 1..3 length bytes (non-minimal allowed) x 8 single corruptions; ASCII/binary/numeric items of 7..33 arbitrary payload bytes; ASCII/binary items whose 2-3 length bytes are all arbitrary with 0/256/257/300 bytes present; length fields of different widths in sequence (4 layouts); decode->re-encode of list trees depth 2 width 2",
   "k<=2 with arbitrary frame; n<=3; 1000 bytes present; trees over 4 leaf formats",
   ["message text longer than the bound without structure", "more than one simultaneous corruption in the structured family", "input slices with spare capacity (C07 sparecap covers the capacity clause)"])
_b("C04",
   "names k<=2 arbitrary bytes; ASCII items k<=2 characters (all 128 values); 1- and 2-byte numeric formats full range with n<=2 elements, 4/8-byte formats boundary menu; float menu (15 F4 / 12 F8 values incl. -0 and the float32 that double-rounds through float64) squared; 5 variable/ellipsis templates with ASCII bounds 0..12; 11 fixed accepted texts (print -> parse fixed point) incl. 70 messages in one text, trees 24 and 130 levels deep, lists of 110+60 siblings",
   "k<=4; n<=3; symbolic constants in the templates (full-range 32/64-bit decimal round trips were tried and dropped: z3 answers unknown on the digit arithmetic)",
   ["4- and 8-byte integer values outside the boundary menu", "float values outside the menu (strconv's shortest-digit printing and parsing run concretely, they are not encoded)", "messages whose single ellipsis carries a non-canonical name", "names the lexer reads as another token (excluded by the property)"])
_b("C05",
   "integer literals of 10 item types x sign: decimal k<=4 symbolic digits, hex 4, octal 3, binary 8, and literals straddling the limit of every width (limit/base with 1 symbolic trailing digit) in all four bases, literals straddling 2^64-1 and one digit longer than it; signs that no digit follows; one arbitrary byte directly behind a literal of 8 classes; two literals per item; wrong-kind literals; strings k<=4 bytes, mixed strings/codes; booleans; float menu in F4/F8 and mixed; radix digits outside the radix",
   "decimal k<=5, hex 8, octal 6, binary 16 symbolic digits; straddling literals with 1-2 symbolic trailing digits; strings k<=5",
   ["decimal literals with a leading zero, '+' on unsigned items, '-0' on unsigned items (unspecified)", "control characters inside quoted strings other than CR/LF", "the text->float mapping of strconv.ParseFloat beyond the menu"])
_b("C06",
   "arbitrary strings k<=3 bytes; 9 skeletons x 1 arbitrary byte at (every / every second) position, 2 bytes at 7 positions; numbers with 1, 3, 10 symbolic digits in 10 places, and codes / size bounds / ellipsis indices around 2^63 and 2^64 with 1-2 symbolic trailing digits; 40 nested lists around a variable, a value, an ellipsis, two items",
   "k<=4; 2 arbitrary bytes at every position; numbers up to 12 symbolic digits; 100 nested lists",
   ["inputs longer than the bound", "runtime-fatal stack exhaustion on megabyte-deep nesting", "coverage-guided mutation (different technique)"])
_b("C07",
   "k<=4 arbitrary text bytes (and k<=1 with arbitrary frame); an item header at nesting depth<=2 declaring an arbitrary 1..3-byte length with 0/2 bytes present (5 formats); inputs that are a prefix of a 200,000-byte buffer (5 header kinds); 14 growth families (engine: members 32/64; native: members scale and 2 x scale, 3,000..20,000)",
   "k<=5; depth<=4, 14 formats, 0/1/2/4 bytes present; growth members 128/256",
   ["runtime-fatal stack exhaustion on megabyte-deep nesting", "input shapes outside the 14 growth families for the super-linear clause", "unstructured inputs longer than the bound"])
_b("C08",
   "12 token sequences (valid, warnings, errors of 6 kinds, one-character tokens, rejected texts with the error behind the item); one layout change per path: 0..2 arbitrary white-space bytes at every boundary (also where optional), a // comment of 0..2 arbitrary bytes ending in LF, CRLF or end of input, with or without a blank, all case patterns of one keyword",
   "3 white-space bytes, comments up to 4 bytes",
   ["two simultaneous layout changes", "comment text longer than the bound", "comments inside a size declaration (one token)", "token texts with multi-byte characters (the position oracle counts bytes)"])
_b("C09",
   "leaf templates of 8 kind/width pairs with n=2 slots x all variable/fill subsets (values symbolic, unconstrained); ASCII variables k<=2 with 5 bound pairs; nested list template with 5 variables x 32 fill subsets x every two-step split, also with an inserted item that brings its own variable whose name is a key of the same map; message completed in all 6 orders of fill / wait bit / session",
   "n=3 slots, 12 kind/width pairs; k<=4",
   ["templates with ellipses (C10)", "fill maps with more than the listed extra keys"])
_b("C10",
   "generated templates: two levels of lists; top level <=2 items before and <=1 after an ellipsis, nested lists 1 item before and none after; item menu {constant, <I1 v>, nested list}; every assignment unfilled / 0..2; fixed shapes: <L x ... y> with counts 0..11, <L <L a ... b> ... c> with 0..11 x 0..2, chains of 1, 3, 5 nested lists each unfilled / 0 / 1; the template is unchanged afterwards",
   "generated: 3 leaf kinds with counts 0..2; three levels; nested lists with 2 items before, counts 0..1; flat lists of <=3 items over 4 leaf kinds, counts 0..3; fixed: counts 0..101, chains up to 6",
   ["larger templates and repeat counts", "negative repeat counts"])
_b("C11",
   "16 scenarios (constructor/producer arguments, accessor and encoder results of messages and of items of all 14 formats with 0/1/2 values, fill maps, variadic slices, shared sub-items, decoder input, window arguments with spare capacity, list templates with an ellipsis anywhere, two fills of one template, control requests answered twice) x one byte position (all explored) xor an arbitrary non-zero mask; observe-derive-observe histories of length <=3",
   "same",
   ["histories longer than the scenario sequences", "concurrent mutation (C17)"])
_b("C12",
   "every factory x every accepted Go argument type with the argument fully symbolic (1 element per call); fills of leaf variables (3 kinds x 10 Go types); binary strings k<=3 arbitrary characters, also behind a concrete run of 6..70 digits; ASCII strings of k<=3 and 7, 8, 9, 16, 17, 33 arbitrary bytes; names k<=4 arbitrary bytes in 7 node kinds and with index accessors k<=2; ellipsis placement incl. two ellipses among plain variables x 5 map orders; duplicate names; message fields unconstrained; message fill keeps the header; message names k<=3",
   "k<=6 names; binary strings k<=9",
   ["message names with non-ASCII whitespace", "binary string forms containing '_' (unspecified)"])
_b("C13",
   "header routine and byte-length routine for every count 0 <= n < 2^40 per format (one symbolic 64-bit count); factories at 0, 1, 3 elements and around 255 payload bytes for 14 formats (ASCII content partly arbitrary bytes; encoding requested twice with the first result overwritten); the first size beyond the limit for all 14 formats (ASCII also through FillVariables); decoder read-back: all 1..3 length bytes arbitrary with 0/255/256 bytes present, mixed widths",
   "factories also around 65,535 bytes and at the largest constructible size for 7 formats and the fill path (2M-16M elements)",
   ["executing element loops of items above the materialised sizes", "lists of 16,777,216 elements made by ellipsis expansion", "messages longer than one 16,777,215-byte item or two 9 MB items (a decoder limit on the total message size above that is not seen: seeded change C13-d2)"])
_b("C15",
   "14 item types x 4 declaration forms x counts 0..2, 1 symbolic digit per bound (+ blank-padded variant with 2 digits, + one arbitrary byte of {SP,TAB,LF,CR} as padding, + one element being a variable, + 20-digit bounds that overflow int); list children carry declarations of their own; ASCII variables: bounds kept, printed, enforced on fill; direct construction with arbitrary ints; bounds through ellipsis expansion",
   "counts 0..4, up to 5 symbolic digits per bound",
   ["declarations preceded by whitespace (position shift is C08)", "counts above 4"])
_b("C16",
   "leaves n<=2 and lists depth 1 width<=2 / depth 0 width 3 over 4 kinds, every variable/ellipsis placement, x 3 map orders; shared sub-items; duplicate names through fills; ASCII k<=3 arbitrary bytes; messages around a bare item of 10 kinds with/without a variable, directly and inside 1-2 lists; header routine for every size (never an error within the limit); one U1 item with 66,000 variables",
   "n<=3; depth 1 width 2 over 2 and 3 kinds; depth 0 width 3 over 7 kinds with n<=2",
   ["constants other than the fixed menu (their independence is C09)", "lists nested three levels deep (more than 10 million shapes: did not finish in 2 h)"])
_b("C17",
   "15 operations (print, encode, list, fill, ellipsis expansion, producers, both parsers on accepted, rejected, long rejected and deeply nested input, texts refused through the parser's panic recovery, control messages) on one template and one complete message with symbolic constants x 4 map orders; objects nobody has observed yet (7 bare items, 1 message); results handed to callers (4 scenarios); histories b, a, b for every pair of operations; natively every operation in 8 goroutines x 25 iterations under the race detector",
   "same",
   ["actual schedules beyond the 8-goroutine native runs", "operations on objects outside the menu", "state shared through sync/atomic or under a mutex (exempt from the write-set certificate; only the native runs and the histories see it)"])
_b("C18",
   "<=2 producer calls from every start state (3 wait-bit kinds), arguments symbolic and unconstrained",
   "<=3 producer calls",
   ["longer sequences", "message names beyond the two-entry menu (C12 covers names)"])
_b("C19",
   "17 text kinds (variables, ellipses, header-only, 36 variables, wrong ellipsis numbers, two messages in one text, 34 warnings, every item type with shared names, k<=3 arbitrary leading bytes, 70 messages in one text, trees 24 and 130 levels deep, 110+60 siblings, a 140,000-column line) : all 9x9 base pairs x 8 separators, 46 further pairs, 7 triples",
   "k<=4 leading bytes; 167 triples",
   ["texts outside the menu", "separators longer than 4 bytes"])
