#!/usr/bin/env python3
"""Regenerates MANIFEST.json from verif_jobs.PROPS (keeps the interface file consistent)."""
import json, os, sys
sys.path.insert(0, os.path.dirname(os.path.abspath(__file__)))
import verif_jobs

ALL = ["C%02d" % i for i in range(1, 20)]
TECH = "bounded symbolic execution of go/ssa (own engine) with z3: path conditions and assertions decided by SMT; witnesses replayed natively"
checks = []
for pid in ALL:
    if pid not in verif_jobs.PROPS:
        continue
    s = verif_jobs.PROPS[pid]
    checks.append({
        "property_id": pid,
        "quick_cmd": "./check %s --tier quick" % pid,
        "thorough_cmd": "./check %s --tier thorough" % pid,
        "evidence_file": "/verif/evidence/%s.json" % pid,
        "replay_cmd_template": "./check --replay {path}",
        "engine": "gosymex",
        "level_claimed": {"category": s.get("level", "model_checking"), "text": s["level_text"], "design_ref": s.get("design_ref", "DESIGN.md §2 " + pid)},
        "level_note": s["level_note"],
        "technique": s.get("technique", TECH),
    })
na = [{"property_id": p, "reason": verif_jobs.NOT_APPLICABLE.get(p, "check not built yet in this session (work in progress; see DESIGN.md §2 for the planned harness)")}
      for p in ALL if p not in verif_jobs.PROPS]
m = {
    "version": 1,
    "setup_cmd": "cd /verif/engine && GOFLAGS=-mod=mod GOPROXY=off GOSUMDB=off GOTOOLCHAIN=local go build -o ../bin/gosymex . && ../bin/gosymex selftest",
    "hooks": {
        "guard": "verif",
        "enable": "no file is added to /repo: harnesses and the zzverifrt package are injected by go/packages Overlay (engine) and `go test -tags verif -overlay` (native replay); every injected file carries //go:build verif",
        "baseline_off_cmd": "cd /repo && GOFLAGS=-mod=mod GOPROXY=off go test -vet=off -count=1 ./...",
        "source_commits": [],
        "add_only": True,
    },
    "engines": [{"name": "gosymex", "path": "/verif/engine", "serves_properties": [c["property_id"] for c in checks],
                 "kind_free_text": "symbolic interpreter for go/ssa (x/tools v0.29.0) + SMT-LIB2 over a live z3 process; decision-prefix re-execution DFS; native replay of witnesses via go test -overlay"}],
    "checks": checks,
    "not_applicable": na,
    "notes": "All checks are bounded (see each evidence file: bounds, outside_claim). Exit 3 + INCONCLUSIVE lines = an obligation could not be decided (never reported as a pass or as a violation).",
}
json.dump(m, open(os.path.join(os.path.dirname(os.path.abspath(__file__)), "MANIFEST.json"), "w"), indent=1)
print("MANIFEST.json: %d checks, %d not_applicable" % (len(checks), len(na)))
